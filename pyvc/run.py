"""Driver: verify the contracts of the given sidecar modules; print / return JSON results."""
import importlib
import json
import sys
import time

from . import contract as C, engine, solve


def verify_all(module_names, select=None, timeout=10, verbose=False):
    for m in module_names:
        importlib.import_module(m)
    results = []
    items = []
    verifiers = {}
    t0 = time.time()
    for key, con in list(C.REGISTRY.items()):
        if not con.verify:
            continue
        if select and not select(con):
            continue
        v = engine.verify_contract(con)
        verifiers[key] = v
        if v.status != "ok":
            continue
        ax = v.axioms()
        for ob in v.obligs:
            items.append(((key, ob.oid), v.smt_text(ob, ax)))
    gen_s = time.time() - t0
    solved = solve.solve_many(items, timeout=timeout)
    for key, v in verifiers.items():
        con = v.con
        rec = {
            "function": f"{con.relpath}:{con.qualname}", "props": con.props, "sha256": v.ext.sha256, "lineno": v.ext.lineno,
            "status": v.status, "reason": v.reason, "paths": v.paths, "obligations": [],
            "assumptions": sorted(v.assumptions), "opaque": sorted(v.opaque_used), "inlined": sorted(v.inlined),
            "callee_contracts": sorted(v.used_contracts),
        }
        for ob in (v.obligs if v.status == 'ok' else []):
            r = solved[(key, ob.oid)]
            if ob.expect == "unsat":
                verdict = {"unsat": "discharged", "sat": "refuted"}.get(r["status"], "undecided")
            else:
                verdict = {"sat": "discharged", "unsat": "refuted"}.get(r["status"], "undecided")
            rec["obligations"].append({
                "id": ob.oid, "kind": ob.kind, "text": ob.text, "line": ob.lineno, "verdict": verdict, "solver": r["solver"],
                "time": round(r["time"], 3), "attempts": r["attempts"], "after_havoc": ob.after_havoc,
                "model": r["model"][:4000] if verdict == "refuted" and ob.expect == "unsat" else "",
            })
        results.append(rec)
    return {"generation_s": round(gen_s, 2), "wall_s": round(time.time() - t0, 2), "functions": results}


def main():
    mods = [a for a in sys.argv[1:] if not a.startswith("-")]
    res = verify_all(mods, timeout=10)
    bad = 0
    for f in res["functions"]:
        obs = f["obligations"]
        d = sum(o["verdict"] == "discharged" for o in obs)
        print(f"{f['function']}: {f['status']} {f['reason']} paths={f['paths']} obligations={len(obs)} discharged={d}")
        for o in obs:
            if o["verdict"] != "discharged":
                bad += 1
                print("   ", o["verdict"].upper(), o["id"], "|", o["text"], o["attempts"])
                if "-m" in sys.argv and o["model"]:
                    print(o["model"][:1500])
    print("gen", res["generation_s"], "wall", res["wall_s"])
    if "--json" in sys.argv:
        json.dump(res, open("/dev/stdout", "w"), indent=1)


if __name__ == "__main__":
    main()
