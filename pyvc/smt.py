"""Sorts and global symbols of the PyVC encoding.

One universal value sort ``Val``; mutable objects are references into per-field heap arrays
(Boogie style).  Every term handled by the engine has sort Val; ints / bools / strings are
injected with the constructors below.
"""
import z3

Val = z3.Datatype("Val")
Val.declare("VNone")
Val.declare("VBool", ("b", z3.BoolSort()))
Val.declare("VInt", ("i", z3.IntSort()))
Val.declare("VStr", ("s", z3.StringSort()))
Val.declare("VRef", ("r", z3.IntSort()))
Val.declare("VReal", ("x", z3.RealSort()))
Val.declare("VNil")  # empty tuple
Val.declare("VCons", ("hd", Val), ("tl", Val))  # structural (immutable) tuples
Val = Val.create()

IntS = z3.IntSort()
BoolS = z3.BoolSort()
StrS = z3.StringSort()

NONE = Val.VNone
NIL = Val.VNil


def mk_int(x):
    if isinstance(x, int):
        x = z3.IntVal(x)
    return Val.VInt(x)


def mk_bool(x):
    if isinstance(x, bool):
        x = z3.BoolVal(x)
    return Val.VBool(x)


def mk_str(x):
    if isinstance(x, str):
        x = z3.StringVal(x)
    return Val.VStr(x)


def mk_ref(x):
    if isinstance(x, int):
        x = z3.IntVal(x)
    return Val.VRef(x)


def mk_tuple(items):
    t = NIL
    for it in reversed(list(items)):
        t = Val.VCons(it, t)
    return t


is_none = Val.is_VNone
is_bool = Val.is_VBool
is_int = Val.is_VInt
is_str = Val.is_VStr
is_ref = Val.is_VRef
is_real = Val.is_VReal
is_nil = Val.is_VNil
is_cons = Val.is_VCons

# reserved class ids for builtin container kinds (all user classes get ids >= 100)
CLS_LIST, CLS_DICT, CLS_SET, CLS_TUPLE, CLS_FUNC, CLS_OBJECT = 1, 2, 3, 4, 5, 6
FIRST_USER_CLS = 100

# the class of a reference never changes: one global uninterpreted array
CLS = z3.Array("$cls", IntS, IntS)


def num(v):
    """numeric value of an int-or-bool Val (Python: True == 1)."""
    return z3.If(is_bool(v), z3.If(Val.b(v), z3.IntVal(1), z3.IntVal(0)), Val.i(v))


def is_num(v):
    return z3.Or(is_int(v), is_bool(v))


def fresh(prefix, sort=None, _ctr=[0]):
    _ctr[0] += 1
    return z3.Const(f"{prefix}!{_ctr[0]}", sort if sort is not None else Val)


def simp(t):
    return z3.simplify(t)


def is_true(t):
    return z3.is_true(z3.simplify(t))


def is_false(t):
    return z3.is_false(z3.simplify(t))


def N(sv):
    """numeric value of an SV using its static hint."""
    ty = getattr(sv, "ty", None)
    if ty == "int":
        return Val.i(sv.t)
    if ty == "bool":
        return z3.If(Val.b(sv.t), z3.IntVal(1), z3.IntVal(0))
    return num(sv.t)
