"""Mechanical extraction of the functions under contract from the real source tree.

Nothing is copied into /verif: on every run the file under REPO is parsed with ``ast`` and the
FunctionDef is taken by qualified name.  What the extraction drops is decided in engine.py
(docstrings, annotations-as-code, t.cast).  A sha256 of the exact source segment goes into the
evidence.
"""
import ast
import hashlib
import importlib
import os
import sys

REPO = os.environ.get("VERIF_REPO", "/repo")
if REPO not in sys.path:
    sys.path.insert(0, REPO)

_ast_cache = {}
_src_cache = {}


def module_source(relpath):
    if relpath not in _src_cache:
        with open(os.path.join(REPO, relpath), encoding="utf-8") as f:
            _src_cache[relpath] = f.read()
    return _src_cache[relpath]


def module_ast(relpath):
    if relpath not in _ast_cache:
        _ast_cache[relpath] = ast.parse(module_source(relpath), filename=relpath)
    return _ast_cache[relpath]


def module_name(relpath):
    assert relpath.endswith(".py")
    name = relpath[:-3].replace("/", ".")
    if name.endswith(".__init__"):
        name = name[: -len(".__init__")]
    return name


def real_module(relpath):
    return importlib.import_module(module_name(relpath))


class Extracted:
    def __init__(self, relpath, qualname, node, chain):
        self.relpath = relpath
        self.qualname = qualname
        self.node = node  # ast.FunctionDef
        self.chain = chain  # enclosing ClassDef / FunctionDef nodes, outermost first
        seg = ast.get_source_segment(module_source(relpath), node) or ""
        self.source = seg
        self.sha256 = hashlib.sha256(seg.encode()).hexdigest()
        self.lineno = node.lineno

    @property
    def class_name(self):
        for n in reversed(self.chain):
            if isinstance(n, ast.ClassDef):
                return n.name
        return None

    @property
    def enclosing_functions(self):
        return [n for n in self.chain if isinstance(n, (ast.FunctionDef, ast.AsyncFunctionDef))]


class ExtractionError(Exception):
    pass


def find_function(relpath, qualname):
    """Locate ``qualname`` (e.g. ``Parser._advance`` or ``null_if_any.decorator._func``)."""
    tree = module_ast(relpath)
    parts = qualname.split(".")
    chain = []
    body = tree.body
    node = None
    for k, part in enumerate(parts):
        found = None
        # search statements (also inside if/else/try at that level) for def/class named part
        stack = list(body)
        while stack:
            s = stack.pop(0)
            if isinstance(s, (ast.FunctionDef, ast.ClassDef, ast.AsyncFunctionDef)) and s.name == part:
                # skip @overload stubs
                if isinstance(s, ast.FunctionDef) and any(
                    (isinstance(d, ast.Attribute) and d.attr == "overload")
                    or (isinstance(d, ast.Name) and d.id == "overload")
                    for d in s.decorator_list
                ):
                    continue
                found = s
                break
            for fld in ("body", "orelse", "finalbody", "handlers"):
                sub = getattr(s, fld, None)
                if isinstance(sub, list) and not isinstance(
                    s, (ast.FunctionDef, ast.ClassDef, ast.AsyncFunctionDef)
                ):
                    stack.extend(x for x in sub if isinstance(x, ast.AST))
        if found is None:
            raise ExtractionError(f"{relpath}: {qualname}: no definition named {part!r}")
        if k < len(parts) - 1:
            chain.append(found)
            body = found.body
        node = found
    if not isinstance(node, ast.FunctionDef):
        raise ExtractionError(f"{relpath}: {qualname} is not a function")
    return Extracted(relpath, qualname, node, chain)


def real_object(relpath, dotted):
    """The real (imported) object for a dotted name in a module, e.g. ('sqlglot/parser.py','Parser')."""
    obj = real_module(relpath)
    for p in dotted.split("."):
        obj = getattr(obj, p)
    return obj


def function_source_location(func):
    """(relpath, qualname) of a real function object (for inlining / contract lookup)."""
    import inspect

    func = inspect.unwrap(func) if callable(func) else func
    if isinstance(func, property):
        func = func.fget
    func = getattr(func, "__func__", func)
    path = inspect.getsourcefile(func)
    if not path or not os.path.abspath(path).startswith(os.path.abspath(REPO) + os.sep):
        raise ExtractionError(f"{func!r}: not defined under {REPO}")
    rel = os.path.relpath(os.path.abspath(path), os.path.abspath(REPO))
    return rel, func.__qualname__.replace(".<locals>", "")
