"""Spec-mode evaluation of contract expressions (pure: no forking, no exceptions, no side effects)."""
import ast

import z3

from . import smt, contract as C
from .smt import Val, IntS
from .state import SV, Unsupported, sv_int, sv_bool, SV_NONE, TypeSpec


class SpecMixin:
    def spec_bool(self, src_or_node, st, names, env=None, old=None, extra=None):
        node = ast.parse(src_or_node.strip(), mode="eval").body if isinstance(src_or_node, str) else src_or_node
        ctx = SpecCtx(st, names, dict(env or {}), old if old is not None else self.entry, extra or {})
        self._live = st
        return self.sb(node, ctx)

    def spec_val(self, src_or_node, st, names, env=None, old=None, extra=None):
        node = ast.parse(src_or_node.strip(), mode="eval").body if isinstance(src_or_node, str) else src_or_node
        ctx = SpecCtx(st, names, dict(env or {}), old if old is not None else self.entry, extra or {})
        self._live = st
        return self.sv(node, ctx)

    # -- as z3 Bool
    def sb(self, e, ctx):
        if isinstance(e, ast.BoolOp):
            parts = [self.sb(v, ctx) for v in e.values]
            return z3.And(*parts) if isinstance(e.op, ast.And) else z3.Or(*parts)
        if isinstance(e, ast.UnaryOp) and isinstance(e.op, ast.Not):
            return z3.Not(self.sb(e.operand, ctx))
        if isinstance(e, ast.Compare):
            return self.s_compare(e, ctx)
        if isinstance(e, ast.Constant) and isinstance(e.value, bool):
            return z3.BoolVal(e.value)
        if isinstance(e, ast.IfExp):
            return z3.If(self.sb(e.test, ctx), self.sb(e.body, ctx), self.sb(e.orelse, ctx))
        if isinstance(e, ast.Call) and isinstance(e.func, ast.Name):
            r = self.s_call_bool(e, ctx)
            if r is not None:
                return r
        v = self.sv(e, ctx)
        return self.truthy(ctx.st, v)

    def s_call_bool(self, e, ctx):
        fn = e.func.id
        a = e.args
        if fn == "implies":
            return z3.Implies(self.sb(a[0], ctx), self.sb(a[1], ctx))
        if fn == "iff":
            return self.sb(a[0], ctx) == self.sb(a[1], ctx)
        if fn in ("forall", "exists"):
            return self.s_quant(fn, a, ctx)
        if fn == "isinstance":
            v = self.sv(a[0], ctx)
            return self.isinstance_term(ctx.st, v, self.spec_classes(a[1], ctx))
        if fn == "is_none":
            return smt.is_none(self.sv(a[0], ctx).t)
        if fn == "is_ref":
            return smt.is_ref(self.sv(a[0], ctx).t)
        if fn == "is_int":
            return smt.is_int(self.sv(a[0], ctx).t)
        if fn == "is_bool":
            return smt.is_bool(self.sv(a[0], ctx).t)
        if fn == "is_str":
            return smt.is_str(self.sv(a[0], ctx).t)
        if fn == "is_list":
            v = self.sv(a[0], ctx).t
            return z3.And(smt.is_ref(v), smt.CLS[Val.r(v)] == smt.CLS_LIST)
        if fn == "has_type":
            return self.type_fact(self.sv(a[0], ctx).t, TypeSpec(a[1].value))
        if fn == "truthy":
            return self.truthy(ctx.st, self.sv(a[0], ctx))
        if fn == "allocated":
            v = self.sv(a[0], ctx).t
            return z3.Implies(smt.is_ref(v), Val.r(v) < ctx.st.alloc)
        if fn == "fresh":  # allocated during this call
            v = self.sv(a[0], ctx).t
            return z3.And(smt.is_ref(v), Val.r(v) >= self.entry.alloc)
        if fn == "was_allocated":  # existed at entry
            v = self.sv(a[0], ctx).t
            return z3.And(smt.is_ref(v), Val.r(v) < self.entry.alloc)
        if fn == "has":  # has(d, k): dict/set membership
            d = self.sv(a[0], ctx)
            k = self.sv(a[1], ctx)
            return self.dict_has(ctx.st, d.t, k.t)
        if fn == "same_class":
            x, y = self.sv(a[0], ctx).t, self.sv(a[1], ctx).t
            return smt.CLS[Val.r(x)] == smt.CLS[Val.r(y)]
        if fn == "defined":
            return z3.BoolVal(a[0].value in ctx.env or a[0].value in ctx.names)
        if fn in C.SPECS:
            return self.s_specfn_bool(C.SPECS[fn], a, ctx)
        if fn in C.UNINTERPRETED and C.UNINTERPRETED[fn][1] == "bool":
            ar, _ = C.UNINTERPRETED[fn]
            f = self.get_uf("spec_" + fn, [Val] * ar, z3.BoolSort())
            return f(*[self.sv(x, ctx).t for x in a])
        return None

    def s_specfn_bool(self, fn, args, ctx):
        vals = [self.sv(x, ctx) for x in args]
        sub = SpecCtx(ctx.st, ctx.names, dict(zip(fn.params, vals)), ctx.old, ctx.extra)
        sub.in_old = ctx.in_old
        return self.sb(fn.body, sub)

    def s_quant(self, kind, a, ctx):
        dom, lam = a[0], a[1]
        assert isinstance(lam, ast.Lambda)
        params = [p.arg for p in lam.args.args]
        bound = []
        guards = []
        env = dict(ctx.env)
        if isinstance(dom, ast.Call) and isinstance(dom.func, ast.Name) and dom.func.id == "range":
            ra = [Val.i(self.sv(x, ctx).t) for x in dom.args]
            lo, hi = (z3.IntVal(0), ra[0]) if len(ra) == 1 else (ra[0], ra[1])
            q = z3.Int(f"{params[0]}!q{self._qid()}")
            bound.append(q)
            guards += [q >= lo, q < hi]
            env[params[0]] = sv_int(q)
        elif isinstance(dom, ast.Name) and dom.id in ("int", "ref", "val", "str"):
            for p in params:
                if dom.id == "int":
                    q = z3.Int(f"{p}!q{self._qid()}")
                    env[p] = sv_int(q)
                elif dom.id == "ref":
                    q = z3.Int(f"{p}!q{self._qid()}")
                    env[p] = SV(smt.mk_ref(q))
                elif dom.id == "str":
                    q = z3.String(f"{p}!q{self._qid()}")
                    env[p] = SV(smt.mk_str(q), "str")
                else:
                    q = z3.Const(f"{p}!q{self._qid()}", Val)
                    env[p] = SV(q)
                bound.append(q)
        elif isinstance(dom, ast.Constant) and isinstance(dom.value, str):
            # typed references: forall("Expr", lambda n: ...)
            q = z3.Int(f"{params[0]}!q{self._qid()}")
            bound.append(q)
            t = smt.mk_ref(q)
            guards.append(self.type_fact(t, TypeSpec(dom.value)))
            ts = TypeSpec(dom.value)
            env[params[0]] = SV(t, ts.single)
        else:
            # a list-valued expression: quantify over its indices
            lst = self.sv(dom, ctx)
            q = z3.Int(f"{params[0]}!q{self._qid()}")
            bound.append(q)
            n = self.list_len(ctx.st, lst.t)
            guards += [q >= 0, q < n]
            et = lst.meta[1] if lst.meta and lst.meta[0] == "elemtype" else None
            el = z3.Select(self.list_items(ctx.st, lst.t), q)
            env[params[-1]] = SV(el, et.single if et else None)
            if len(params) == 2:
                env[params[0]] = sv_int(q)
        sub = SpecCtx(ctx.st, ctx.names, env, ctx.old, ctx.extra)
        sub.in_old = ctx.in_old
        body = self.sb(lam.body, sub)
        g = z3.And(*guards) if guards else z3.BoolVal(True)
        if kind == "forall":
            return z3.ForAll(bound, z3.Implies(g, body))
        return z3.Exists(bound, z3.And(g, body))

    def _qid(self, _c=[0]):
        _c[0] += 1
        return _c[0]

    def spec_classes(self, node, ctx):
        if isinstance(node, ast.Tuple):
            out = []
            for x in node.elts:
                out += self.spec_classes(x, ctx)
            return out
        if isinstance(node, ast.Constant) and isinstance(node.value, str):
            return [self.resolve_class_name(node.value)]
        name = ast.unparse(node)
        if name in ("list", "dict", "set", "tuple", "str", "int", "bool"):
            return [{"list": list, "dict": dict, "set": set, "tuple": tuple, "str": str, "int": int, "bool": bool}[name]]
        return [self.resolve_class_name(name.split(".")[-1])]

    def isinstance_term(self, st, v, classes):
        alts = []
        for cls in classes:
            if cls is str:
                alts.append(smt.is_str(v.t))
            elif cls is bool:
                alts.append(smt.is_bool(v.t))
            elif cls is int:
                alts.append(smt.is_num(v.t))
            elif cls is type(None):
                alts.append(smt.is_none(v.t))
            elif cls is tuple:
                alts.append(z3.Or(smt.is_nil(v.t), smt.is_cons(v.t), z3.And(smt.is_ref(v.t), smt.CLS[Val.r(v.t)] == smt.CLS_TUPLE)))
            elif cls is float:
                alts.append(smt.is_real(v.t))
            else:
                alts.append(z3.And(smt.is_ref(v.t), self.classes.isa(cls, smt.CLS[Val.r(v.t)])))
        return z3.Or(*alts) if len(alts) != 1 else alts[0]

    def s_compare(self, e, ctx):
        left = self.sv(e.left, ctx)
        out = []
        for op, rnode in zip(e.ops, e.comparators):
            right = self.sv(rnode, ctx)
            out.append(self.cmp_term(ctx.st, op, left, right))
            left = right
        return z3.And(*out) if len(out) > 1 else out[0]

    def cmp_term(self, st, op, a, b):
        """Comparison as z3 Bool, no exceptions (spec mode and after type checks in exec mode)."""
        if (a.meta and a.meta[0] == "typeof") or (b.meta and b.meta[0] == "typeof"):
            r = self.typeof_cmp(st, a, b)
            return r if isinstance(op, (ast.Is, ast.Eq)) else z3.Not(r)
        if isinstance(op, ast.Is):
            return a.t == b.t
        if isinstance(op, ast.IsNot):
            return a.t != b.t
        if isinstance(op, ast.Eq):
            return self.py_eq(st, a, b)
        if isinstance(op, ast.NotEq):
            return z3.Not(self.py_eq(st, a, b))
        if isinstance(op, (ast.In, ast.NotIn)):
            r = self.contains_term(st, a, b)
            return r if isinstance(op, ast.In) else z3.Not(r)
        if a.ty == "str" or b.ty == "str":
            x, y = Val.s(a.t), Val.s(b.t)
            return {ast.Lt: lambda: x < y, ast.LtE: lambda: x <= y, ast.Gt: lambda: y < x, ast.GtE: lambda: y <= x}[type(op)]()
        if a.ty == "real" or b.ty == "real":
            x = Val.x(a.t) if a.ty == "real" else z3.ToReal(smt.num(a.t))
            y = Val.x(b.t) if b.ty == "real" else z3.ToReal(smt.num(b.t))
        else:
            x, y = smt.N(a), smt.N(b)
        return {ast.Lt: lambda: x < y, ast.LtE: lambda: x <= y, ast.Gt: lambda: x > y, ast.GtE: lambda: x >= y}[type(op)]()

    def typeof_cmp(self, st, a, b):
        """type(x) is C  /  type(x) is type(y)   (exact type equality)"""
        if not (a.meta and a.meta[0] == "typeof"):
            a, b = b, a
        x = a.meta[1].t
        if b.meta and b.meta[0] == "class":
            cls = b.meta[1]
            if cls is str:
                return smt.is_str(x)
            if cls is bool:
                return smt.is_bool(x)
            if cls is int:
                return smt.is_int(x)
            if cls is float:
                return smt.is_real(x)
            if cls is type(None):
                return smt.is_none(x)
            if cls is tuple:
                return z3.Or(smt.is_nil(x), smt.is_cons(x), z3.And(smt.is_ref(x), smt.CLS[Val.r(x)] == smt.CLS_TUPLE))
            cid = {list: smt.CLS_LIST, dict: smt.CLS_DICT, set: smt.CLS_SET}.get(cls)
            if cid is None:
                cid = self.classes.cid(cls)
            return z3.And(smt.is_ref(x), smt.CLS[Val.r(x)] == cid)
        if b.meta and b.meta[0] == "typeof":
            y = b.meta[1].t
            kinds = [smt.is_none, smt.is_bool, smt.is_int, smt.is_str, smt.is_real]
            same_simple = z3.Or(*[z3.And(f(x), f(y)) for f in kinds])
            tup = lambda v: z3.Or(smt.is_nil(v), smt.is_cons(v), z3.And(smt.is_ref(v), smt.CLS[Val.r(v)] == smt.CLS_TUPLE))
            both_ref = z3.And(smt.is_ref(x), smt.is_ref(y), smt.CLS[Val.r(x)] == smt.CLS[Val.r(y)])
            return z3.Or(same_simple, both_ref, z3.And(tup(x), tup(y)))
        raise Unsupported("type() compared with a non-class")

    def contains_term(self, st, a, b):
        """a in b"""
        if b.meta and b.meta[0] == "tuple":
            return z3.Or(*[self.py_eq(st, a, x) for x in b.meta[1]]) if b.meta[1] else z3.BoolVal(False)
        if b.meta and b.meta[0] == "pyconst" and isinstance(b.meta[1], (set, frozenset, tuple, list, dict)):
            items = list(b.meta[1])
            return z3.Or(*[self.py_eq(st, a, self.const_sv(x)) for x in items]) if items else z3.BoolVal(False)
        if b.ty in ("dict", "set"):
            return self.dict_has(st, b.t, a.t)
        if b.ty in ("list", "tuple") and smt.is_ref is not None and not (b.meta and b.meta[0] == "tuple"):
            q = z3.Int(f"k!in{self._qid()}")
            n = self.list_len(st, b.t)
            return z3.Exists([q], z3.And(q >= 0, q < n, z3.Select(self.list_items(st, b.t), q) == a.t))
        if b.ty == "str":
            return z3.Contains(Val.s(b.t), Val.s(a.t))
        # unknown container: uninterpreted membership on the container value (stable per container)
        f = self.get_uf("contains", [Val, Val], z3.BoolSort())
        self.note("membership in a container of unknown kind is an uninterpreted relation")
        return f(b.t, a.t)

    # -- as SV
    def sv(self, e, ctx):
        st = ctx.st
        if isinstance(e, ast.Constant):
            return self.const_sv(e.value)
        if isinstance(e, ast.Name):
            return self.s_name(e.id, ctx)
        if isinstance(e, ast.Attribute):
            base = self.sv(e.value, ctx)
            return self.s_attr(base, e.attr, ctx)
        if isinstance(e, ast.Subscript):
            base = self.sv(e.value, ctx)
            if isinstance(e.slice, ast.Slice):
                raise Unsupported("slice in spec expression")
            idx = self.sv(e.slice, ctx)
            return self.s_subscript(base, idx, ctx)
        if isinstance(e, ast.BinOp):
            a, b = self.sv(e.left, ctx), self.sv(e.right, ctx)
            return self.arith(e.op, a, b)
        if isinstance(e, ast.UnaryOp):
            if isinstance(e.op, ast.Not):
                return sv_bool(z3.Not(self.sb(e.operand, ctx)))
            if isinstance(e.op, ast.USub):
                return sv_int(-smt.N(self.sv(e.operand, ctx)))
        if isinstance(e, (ast.Compare,)):
            return sv_bool(self.s_compare(e, ctx))
        if isinstance(e, ast.BoolOp):
            # value-returning and/or
            vals = [self.sv(v, ctx) for v in e.values]
            res = vals[-1]
            for v in reversed(vals[:-1]):
                tr = self.truthy(st, v)
                if isinstance(e.op, ast.And):
                    res = SV(z3.If(tr, res.t, v.t), res.ty if res.ty == v.ty else None)
                else:
                    res = SV(z3.If(tr, v.t, res.t), res.ty if res.ty == v.ty else None)
            return res
        if isinstance(e, ast.IfExp):
            c = self.sb(e.test, ctx)
            a, b = self.sv(e.body, ctx), self.sv(e.orelse, ctx)
            return SV(z3.If(c, a.t, b.t), a.ty if a.ty == b.ty else None)
        if isinstance(e, ast.Tuple):
            items = [self.sv(x, ctx) for x in e.elts]
            return SV(smt.mk_tuple([i.t for i in items]), "tuple", ("tuple", items))
        if isinstance(e, ast.Call):
            return self.s_call(e, ctx)
        raise Unsupported(f"spec expression {ast.dump(e)[:80]}")

    def s_name(self, name, ctx):
        if name in ctx.env:
            return ctx.env[name]
        if name in ctx.extra:
            return ctx.extra[name]
        if name in ("True", "False", "None"):
            return self.const_sv({"True": True, "False": False, "None": None}[name])
        if name in ctx.names:
            return ctx.names[name]
        if "$old_names" not in ctx.extra and self.entry is not None and name in self.entry.locals:
            return self.entry.locals[name]
        return self.global_name(name)

    def s_attr(self, base, attr, ctx):
        if base.meta and base.meta[0] in ("module", "class", "pyconst") and not (base.meta[0] == "pyconst" and self.is_heap_const(base)):
            obj = getattr(base.meta[1], attr)
            return self.const_sv(obj)
        st = ctx.st
        if base.ty == "str" and attr in ("upper", "lower"):
            raise Unsupported("bare str method in spec")
        # spec-visible properties
        prop = self.spec_property(base, attr)
        if prop is not None:
            return prop(st)
        return self.load_field_pure(st, base.t, attr)

    def is_heap_const(self, sv):
        obj = sv.meta[1]
        return not isinstance(obj, (set, frozenset, tuple, list, dict, int, str)) and type(obj).__name__ == "Token"

    def spec_property(self, base, attr):
        return None

    def load_field_pure(self, st, ref_term, field):
        v = z3.Select(st.H(field), Val.r(ref_term))
        ft = self.field_type(field)
        live = getattr(self, "_live", None)
        if live is not None:
            # heap well-formedness: references stored in the heap of state `st` are allocated in `st`
            live.assume(z3.Implies(smt.is_ref(v), Val.r(v) < st.alloc))
        if ft is None:
            return SV(v)
        ts = TypeSpec(ft)
        if live is not None:
            live.assume(self.type_fact(v, ts))
        sv = SV(v, ts.single)
        if ts.elem is not None:
            sv.meta = ("elemtype", ts.elem)
        return sv

    def s_subscript(self, base, idx, ctx):
        st = ctx.st
        if base.meta and base.meta[0] == "tuple" and z3.is_int_value(z3.simplify(Val.i(idx.t))):
            return base.meta[1][z3.simplify(Val.i(idx.t)).as_long()]
        if base.ty == "dict":
            return SV(self.dict_val(st, base.t, idx.t))
        if base.ty == "tuple" and z3.is_int_value(z3.simplify(Val.i(idx.t))) and z3.simplify(Val.i(idx.t)).as_long() >= 0 \
                and not smt.is_true(smt.is_ref(base.t)):
            # a tuple VALUE (cons cells), constant index
            t = base.t
            for _ in range(z3.simplify(Val.i(idx.t)).as_long()):
                t = Val.tl(t)
            return SV(Val.hd(t))
        if base.ty == "str":
            i = Val.i(idx.t)
            n = z3.Length(Val.s(base.t))
            i = z3.If(i < 0, i + n, i)
            return SV(smt.mk_str(z3.SubString(Val.s(base.t), i, 1)), "str")
        i = z3.simplify(Val.i(idx.t))
        if z3.is_int_value(i) and i.as_long() < 0:
            i = i + self.list_len(st, base.t)  # only constant negative indices wrap in spec mode
        et = base.meta[1] if base.meta and base.meta[0] == "elemtype" else None
        v = z3.Select(self.list_items(st, base.t), i)
        if base.ty not in ("list", "tuple"):
            # statically unknown container (e.g. declared `dict|none`): decide by the run-time class
            v = z3.If(smt.CLS[Val.r(base.t)] == smt.CLS_DICT, self.dict_val(st, base.t, idx.t), v)
        live = getattr(self, "_live", None)
        if live is not None:
            live.assume(z3.Implies(smt.is_ref(v), Val.r(v) < st.alloc))
        return SV(v, et.single if et else None)

    def arith(self, op, a, b):
        if isinstance(op, ast.Add) and (a.ty == "str" or b.ty == "str"):
            return SV(smt.mk_str(z3.Concat(Val.s(a.t), Val.s(b.t))), "str")
        x, y = smt.N(a), smt.N(b)
        if isinstance(op, ast.Add):
            return sv_int(x + y)
        if isinstance(op, ast.Sub):
            return sv_int(x - y)
        if isinstance(op, ast.Mult):
            return sv_int(x * y)
        if isinstance(op, ast.FloorDiv):
            return sv_int(_floordiv(x, y))
        if isinstance(op, ast.Mod):
            return sv_int(x - y * _floordiv(x, y))
        raise Unsupported(f"arith op {op}")

    def s_call(self, e, ctx):
        st = ctx.st
        if isinstance(e.func, ast.Name):
            fn = e.func.id
            a = e.args
            if fn == "old":
                old_names = ctx.extra.get("$old_names") or dict(ctx.names, **self.entry.locals)
                sub = SpecCtx(ctx.old, old_names, ctx.env, ctx.old, ctx.extra)
                sub.in_old = True
                return self.sv(a[0], sub)
            if fn == "local_or":
                # local_or('x', default): the final local x where this path assigned it, else the default (for
                # postconditions over locals that only some paths define; pair with defined('x'))
                nm = a[0].value
                if nm in ctx.env or nm in ctx.names:
                    return self.s_name(nm, ctx)
                return self.sv(a[1], ctx)
            if fn == "len":
                v = self.sv(a[0], ctx)
                if v.meta and v.meta[0] == "tuple":
                    return sv_int(len(v.meta[1]))
                if v.ty == "str":
                    return sv_int(z3.Length(Val.s(v.t)))
                return sv_int(self.list_len(st, v.t))
            if fn == "ite":
                c = self.sb(a[0], ctx)
                x, y = self.sv(a[1], ctx), self.sv(a[2], ctx)
                return SV(z3.If(c, x.t, y.t), x.ty if x.ty == y.ty else None)
            if fn in ("min", "max"):
                x, y = smt.N(self.sv(a[0], ctx)), smt.N(self.sv(a[1], ctx))
                return sv_int(z3.If((x <= y) if fn == "min" else (x >= y), x, y))
            if fn == "substr":  # substr(s, lo, hi) = s[lo:hi] with 0<=lo<=hi<=len assumed by the spec writer
                s = Val.s(self.sv(a[0], ctx).t)
                lo, hi = Val.i(self.sv(a[1], ctx).t), Val.i(self.sv(a[2], ctx).t)
                return SV(smt.mk_str(z3.SubString(s, lo, hi - lo)), "str")
            if fn in ("str", "str_of"):
                return SV(smt.mk_str(self.str_of(st, self.sv(a[0], ctx))), "str")
            if fn == "str_join":
                sep, lst = self.sv(a[0], ctx), self.sv(a[1], ctx)
                f = self.get_uf("str_join", [smt.StrS, z3.ArraySort(IntS, Val), IntS], smt.StrS)
                return SV(smt.mk_str(f(Val.s(sep.t), self.list_items(st, lst.t), self.list_len(st, lst.t))), "str")
            if fn == "cls_of":
                v = self.sv(a[0], ctx)
                return sv_int(smt.CLS[Val.r(v.t)])
            if fn == "alloc":
                return sv_int(st.alloc)
            if fn in C.SPECS:
                f = C.SPECS[fn]
                vals = [self.sv(x, ctx) for x in a]
                sub = SpecCtx(ctx.st, ctx.names, dict(zip(f.params, vals)), ctx.old, ctx.extra)
                sub.in_old = ctx.in_old
                return self.sv(f.body, sub)
            if fn in C.UNINTERPRETED:
                ar, kind = C.UNINTERPRETED[fn]
                # "str": a val-valued function whose results are statically known to be strings (len / subscripts read them as text)
                rng = {"val": Val, "str": Val, "bool": z3.BoolSort(), "int": IntS}[kind]
                f = self.get_uf("spec_" + fn, [Val] * ar, rng)
                r = f(*[self.sv(x, ctx).t for x in a])
                return {"val": lambda: SV(r), "str": lambda: SV(r, "str"), "bool": lambda: sv_bool(r), "int": lambda: sv_int(r)}[kind]()
            b = self.s_call_bool(e, ctx)
            if b is not None:
                return sv_bool(b)
        if isinstance(e.func, ast.Attribute):
            base = self.sv(e.func.value, ctx)
            m = e.func.attr
            if base.ty == "dict" and m == "get":
                k = self.sv(e.args[0], ctx)
                d = self.sv(e.args[1], ctx).t if len(e.args) > 1 else smt.NONE
                return SV(z3.If(self.dict_has(st, base.t, k.t), self.dict_val(st, base.t, k.t), d))
            if m in ("upper", "lower", "strip", "lstrip", "rstrip") and not e.args:
                f = self.get_uf("str_" + m, [smt.StrS], smt.StrS)
                return SV(smt.mk_str(f(Val.s(base.t))), "str")
            if m == "replace" and len(e.args) == 2 and base.ty == "str":
                # the same uninterpreted str.replace the executor uses: a clause `r == s.replace(a, b)` pins the call down
                f = self.get_uf("str_replace", [smt.StrS, smt.StrS, smt.StrS], smt.StrS)
                a0, a1 = self.sv(e.args[0], ctx), self.sv(e.args[1], ctx)
                return SV(smt.mk_str(f(Val.s(base.t), Val.s(a0.t), Val.s(a1.t))), "str")
            if m in ("startswith", "endswith") and len(e.args) == 1 and base.ty == "str":
                a0 = self.sv(e.args[0], ctx)
                fn = z3.PrefixOf if m == "startswith" else z3.SuffixOf
                return sv_bool(fn(Val.s(a0.t), Val.s(base.t)))
            if m == "translate" and len(e.args) == 1:
                f = self.get_uf("str_translate", [smt.StrS, Val], smt.StrS)
                return SV(smt.mk_str(f(Val.s(base.t), self.sv(e.args[0], ctx).t)), "str")
            if m in ("isalnum", "isdigit", "isspace", "isidentifier", "isalpha") and not e.args:
                f = self.get_uf("str_" + m, [smt.StrS], z3.BoolSort())
                return sv_bool(f(Val.s(base.t)))
        raise Unsupported(f"spec call {ast.unparse(e)[:80]}")


def _floordiv(x, y):
    # z3 integer div is euclidean (remainder >= 0); python floors
    q = x / y
    return z3.If(y > 0, q, z3.If(x - y * q == 0, q, q - 1)) if True else q


class SpecCtx:
    def __init__(self, st, names, env, old, extra):
        self.st = st
        self.names = names
        self.env = env
        self.old = old
        self.extra = extra
        self.in_old = False
