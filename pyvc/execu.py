"""Statement execution (direct style, lists of Outcomes) on top of CPS expression evaluation."""
import ast

import z3

from . import smt, contract as C
from .smt import Val, IntS
from .state import SV, State, Unsupported, sv_int, sv_bool, SV_NONE, TypeSpec, fresh_array
from .base import Outcome

LIST_MUTATORS = {"append", "pop", "insert", "extend", "remove", "clear", "sort", "reverse"}
DICT_MUTATORS = {"pop", "setdefault", "update", "clear", "add", "discard", "remove", "popitem"}


def ann_to_type(node):
    """annotation AST -> type string (assumed: the code base is type-checked with mypy/mypyc)."""
    if node is None:
        return "any"
    s = ast.unparse(node)
    return _ann_str(s)


def _ann_str(s):
    s = s.strip()
    if s.startswith("t.Optional[") and s.endswith("]"):
        return _ann_str(s[11:-1]) + "|none"
    # top-level unions
    depth, parts, cur = 0, [], ""
    for ch in s:
        if ch in "[(":
            depth += 1
        elif ch in "])":
            depth -= 1
        if ch == "|" and depth == 0:
            parts.append(cur)
            cur = ""
        else:
            cur += ch
    parts.append(cur)
    if len(parts) > 1:
        sub = [_ann_str(p) for p in parts]
        return "any" if "any" in sub else "|".join(sub)
    if s in ("int", "i64", "i32"):
        return "int"
    if s in ("bool", "str"):
        return s
    if s == "None":
        return "none"
    if s == "float":
        return "real"
    if s.startswith(("list[", "t.List[", "list")) and (s == "list" or s.startswith(("list[", "t.List["))):
        return "list"
    if s.startswith(("dict", "t.Dict")):
        return "dict"
    if s.startswith(("set[", "t.Set[")) or s == "set":
        return "set"
    if s.startswith("t.Callable"):
        return "func"
    if s in ("Token",):
        return "Token"
    if s in ("exp.Expr", "Expr", "exp.Expression", "Expression"):
        return s.split(".")[-1]
    return "any"


class ExecMixin:
    # ------------------------------------------------------------------ setup
    def setup(self):
        fn = self.ext.node
        st = State()
        self.written = set()
        self.decl_types = dict((k, v) for k, v in self.con.types.items() if not k.startswith(("^", ".")))
        self.loops = self.index_loops(fn)
        args = fn.args
        names = [a.arg for a in args.posonlyargs + args.args]
        anns = {a.arg: a.annotation for a in args.posonlyargs + args.args + args.kwonlyargs}
        for a in names + [a.arg for a in args.kwonlyargs]:
            ty = self.con.types.get(a)
            if ty is None:
                if a == "self" and self.ext.class_name:
                    ty = self.con.self_class or self.ext.class_name
                else:
                    ty = ann_to_type(anns.get(a))
            t = z3.Const(f"arg.{a}", Val)
            sv = self.typed(st, t, ty)
            st.assume(z3.Implies(smt.is_ref(t), Val.r(t) < st.alloc))
            st.locals[a] = sv
            self.decl_types[a] = ty
        if args.vararg:
            a = args.vararg.arg
            t = z3.Const(f"arg.{a}", Val)
            st.assume(smt.is_ref(t), smt.CLS[Val.r(t)] == smt.CLS_TUPLE, Val.r(t) < st.alloc)
            sv = SV(t, "list")
            et = self.con.types.get(a)
            if et is None and args.vararg.annotation is not None:
                et = ann_to_type(args.vararg.annotation)
            if et:
                sv.meta = ("elemtype", TypeSpec(et))
                self.assume_elem_types(st, sv, TypeSpec(et))
            st.locals[a] = sv
        if args.kwarg:
            # **kwargs: an arbitrary dict (its contents are never inspected by the functions under contract)
            t = z3.Const(f"arg.{args.kwarg.arg}", Val)
            st.assume(smt.is_ref(t), smt.CLS[Val.r(t)] == smt.CLS_DICT, Val.r(t) < st.alloc)
            st.locals[args.kwarg.arg] = SV(t, "dict")
        # free variables of nested functions: declared through contract.types with a leading '^'
        for k, ty in self.con.types.items():
            if k.startswith("^"):
                t = z3.Const(f"free.{k[1:]}", Val)
                sv = self.typed(st, t, ty)
                st.assume(z3.Implies(smt.is_ref(t), Val.r(t) < st.alloc))
                st.locals[k[1:]] = sv
                self.free_env = dict(getattr(self, "free_env", {}), **{k[1:]: sv})
        for g in self.con.ghost.get("counters", ()):
            st.locals["ghost_" + g] = sv_int(0)
        if self.con.exact_self_class and "self" in st.locals:
            cls = self.resolve_class_name(self.con.self_class or self.ext.class_name)
            st.assume(smt.CLS[Val.r(st.locals["self"].t)] == self.classes.cid(cls))
        self.entry = st.copy()
        self.entry.heap = dict(st.heap)
        # requires (assumed at entry)
        for r in self.con.requires:
            st.assume(self.spec_bool(r, st, st.locals, old=st))
        self.entry_pc_len = len(st.pc)
        self.entry = st.copy()
        return st

    def assume_elem_types(self, st, lst, ts):
        q = z3.Int(f"j!et{self._qid()}")
        el = z3.Select(self.list_items(st, lst.t), q)
        st.assume(z3.ForAll([q], z3.Implies(z3.And(q >= 0, q < self.list_len(st, lst.t)), self.type_fact(el, ts)), patterns=[el]))

    def index_loops(self, fn):
        loops = []

        def walk(stmts):
            for s in stmts:
                if isinstance(s, (ast.While, ast.For)):
                    loops.append(s)
                if isinstance(s, (ast.FunctionDef, ast.ClassDef, ast.Lambda)):
                    continue
                for fld in ("body", "orelse", "finalbody"):
                    sub = getattr(s, fld, None)
                    if isinstance(sub, list):
                        walk(sub)
                for h in getattr(s, "handlers", []) or []:
                    walk(h.body)

        walk(fn.body)
        return {(n.lineno, n.col_offset): k for k, n in enumerate(loops)}

    # ------------------------------------------------------------------ blocks
    def exec_block(self, stmts, st):
        if not stmts:
            return [Outcome("next", st)]
        outs = []
        first, rest = stmts[0], stmts[1:]
        for o in self.exec_stmt(first, st):
            if o.kind == "next":
                outs += self.exec_block(rest, o.st)
            else:
                outs.append(o)
        return outs

    def budget(self):
        self.path_count += 1
        if self.path_count > self.con.ghost.get("max_paths", self.max_paths):
            raise Unsupported("path budget exceeded")

    def exec_stmt(self, s, st):
        self.budget()
        if self.con.stop_at and self.match_pattern(s, self.con.stop_at):
            return [Outcome("stop", st)]
        for pat, clauses in self.con.assert_at:
            if self.match_pattern(s, pat):
                for cl in clauses:
                    self.oblige(st, self.spec_bool(cl, st, st.locals), "assert_at", s, cl)
        m = getattr(self, "x_" + type(s).__name__, None)
        if m is None:
            raise Unsupported(f"statement {type(s).__name__} at line {s.lineno}")
        return m(s, st)

    def match_pattern(self, s, pat):
        try:
            txt = ast.unparse(s)
        except Exception:
            return False
        return txt.split("\n")[0].strip().startswith(pat)

    def x_Pass(self, s, st):
        return [Outcome("next", st)]

    def x_Expr(self, s, st):
        if isinstance(s.value, ast.Constant):
            return [Outcome("next", st)]  # docstring
        return self.ev(s.value, st, lambda st1, v: [Outcome("next", st1)])

    def x_Return(self, s, st):
        if s.value is None:
            return [Outcome("return", st, SV_NONE)]
        return self.ev(s.value, st, lambda st1, v: [Outcome("return", st1, v)])

    def x_Break(self, s, st):
        return [Outcome("break", st)]

    def x_Continue(self, s, st):
        return [Outcome("continue", st)]

    def x_Import(self, s, st):
        import importlib

        for a in s.names:
            mod = importlib.import_module(a.name)
            st.locals[a.asname or a.name.split(".")[0]] = self.const_sv(mod if a.asname else importlib.import_module(a.name.split(".")[0]))
        return [Outcome("next", st)]

    def x_ImportFrom(self, s, st):
        import importlib

        mod = importlib.import_module(s.module)
        for a in s.names:
            st.locals[a.asname or a.name] = self.const_sv(getattr(mod, a.name))
        return [Outcome("next", st)]

    def x_Assert(self, s, st):
        def k(st1, v):
            c = self.truthy(st1, v)
            outs = []
            if self.feasible(st1, z3.Not(c)):
                st2 = st1.copy()
                st2.assume(z3.Not(c))
                outs += self.raise_builtin(st2, "AssertionError", s)
            st1.assume(c)
            outs.append(Outcome("next", st1))
            return outs

        return self.ev(s.test, st, k)

    def x_FunctionDef(self, s, st):
        st.locals[s.name] = SV(smt.fresh("closure"), "func", ("lambda", s, dict(st.locals)))
        return [Outcome("next", st)]

    def x_AnnAssign(self, s, st):
        if isinstance(s.target, ast.Name) and s.target.id not in self.decl_types:
            ty = ann_to_type(s.annotation)
            if ty != "any":
                self.decl_types[s.target.id] = ty
        if s.value is None:
            return [Outcome("next", st)]
        return self.ev(s.value, st, lambda st1, v: self.assign_target(s.target, v, st1, s))

    def x_Assign(self, s, st):
        def k(st1, v):
            outs = [Outcome("next", st1)]
            for tgt in s.targets:
                nxt = []
                for o in outs:
                    if o.kind == "next":
                        nxt += self.assign_target(tgt, v, o.st, s)
                    else:
                        nxt.append(o)
                outs = nxt
            return outs

        return self.ev(s.value, st, k)

    def x_AugAssign(self, s, st):
        load = ast.copy_location(ast.BinOp(left=_as_load(s.target), op=s.op, right=s.value), s)
        ast.fix_missing_locations(load)
        return self.ev(load, st, lambda st1, v: self.assign_target(s.target, v, st1, s))

    def assign_target(self, tgt, v, st, node):
        if isinstance(tgt, ast.Name):
            st.locals[tgt.id] = v
            return [Outcome("next", st)]
        if isinstance(tgt, ast.Attribute):
            def k(st1, base):
                return self.non_none(st1, base, node, lambda st2: self._store_attr(st2, base, tgt.attr, v))

            return self.ev(tgt.value, st, k)
        if isinstance(tgt, (ast.Tuple, ast.List)):
            items = self.unpack(st, v, len(tgt.elts), node)
            outs = [Outcome("next", st)]
            for sub, iv in zip(tgt.elts, items):
                nxt = []
                for o in outs:
                    nxt += self.assign_target(sub, iv, o.st, node) if o.kind == "next" else [o]
                outs = nxt
            return outs
        if isinstance(tgt, ast.Subscript):
            return self.ev(tgt.value, st, lambda st1, base: self.store_subscript(st1, base, tgt.slice, v, node))
        raise Unsupported(f"assignment target {type(tgt).__name__}")

    def _store_attr(self, st, base, attr, v):
        self.store_field(st, base.t, attr, v.t)
        return [Outcome("next", st)]

    def unpack(self, st, v, n, node):
        if v.meta and v.meta[0] == "tuple":
            if len(v.meta[1]) != n:
                raise Unsupported("tuple unpack arity")
            return v.meta[1]
        if v.ty in ("tuple",) and not smt.is_true(smt.is_ref(v.t)):
            out, t = [], v.t
            for _ in range(n):
                out.append(SV(Val.hd(t)))
                t = Val.tl(t)
            st.assume(smt.is_nil(t))
            return out
        raise Unsupported("unpacking a non-literal tuple")

    # ------------------------------------------------------------------ if / while / for
    def x_If(self, s, st):
        def k(st1, v):
            return self.branch(st1, self.truthy(st1, v), lambda a: self.exec_block(s.body, a), lambda b: self.exec_block(s.orelse, b))

        return self.ev_cond(s.test, st, lambda st_t: self.exec_block(s.body, st_t), lambda st_f: self.exec_block(s.orelse, st_f))

    def branch(self, st, cond, kt, kf):
        outs = []
        c = z3.simplify(cond)
        if z3.is_true(c):
            return kt(st)
        if z3.is_false(c):
            return kf(st)
        ft = self.feasible(st, c)
        ff = self.feasible(st, z3.Not(c))
        if ft and ff:
            st2 = st.copy()
            st.assume(c)
            st2.assume(z3.Not(c))
            outs += kt(st)
            outs += kf(st2)
        elif ft:
            st.assume(c)
            outs += kt(st)
        elif ff:
            st.assume(z3.Not(c))
            outs += kf(st)
        return outs

    def ev_cond(self, e, st, kt, kf):
        """Evaluate a condition with short-circuit forking, continuing with kt / kf."""
        if isinstance(e, ast.BoolOp):
            vals = e.values
            if isinstance(e.op, ast.And):
                def chain(i, s0):
                    if i == len(vals) - 1:
                        return self.ev_cond(vals[i], s0, kt, kf)
                    return self.ev_cond(vals[i], s0, lambda s1: chain(i + 1, s1), kf)

                return chain(0, st)
            else:
                def chain(i, s0):
                    if i == len(vals) - 1:
                        return self.ev_cond(vals[i], s0, kt, kf)
                    return self.ev_cond(vals[i], s0, kt, lambda s1: chain(i + 1, s1))

                return chain(0, st)
        if isinstance(e, ast.UnaryOp) and isinstance(e.op, ast.Not):
            return self.ev_cond(e.operand, st, kf, kt)
        # `x is None` / `x is not None` on a local declared `T | none`: the non-None side gets the static hint T
        if (isinstance(e, ast.Compare) and len(e.ops) == 1 and isinstance(e.ops[0], (ast.Is, ast.IsNot)) and isinstance(e.left, ast.Name)
                and isinstance(e.comparators[0], ast.Constant) and e.comparators[0].value is None and e.left.id in st.locals):
            name = e.left.id
            decl = self.decl_types.get(name)
            alts = [a for a in TypeSpec(decl).alts if a != "none"] if decl else []
            if len(alts) == 1 and alts[0] != "any":
                def refine(k):
                    def k2(s1):
                        cur = s1.locals.get(name)
                        if cur is not None and cur.ty is None:
                            self.hint_if_forced(s1, name, alts[0])
                        return k(s1)
                    return k2
                if isinstance(e.ops[0], ast.IsNot):
                    kt = refine(kt)
                else:
                    kf = refine(kf)
        # truthiness test of a local declared `T | none` (T a class): the true side gets the static hint T
        if isinstance(e, ast.Name) and e.id in st.locals and st.locals[e.id].ty is None:
            decl = self.decl_types.get(e.id)
            alts = [a for a in TypeSpec(decl).alts if a != "none"] if decl else []
            if len(alts) == 1 and alts[0] not in TypeSpec.BASE:
                name = e.id
                kt0 = kt

                def kt(s1, kt0=kt0):
                    cur = s1.locals.get(name)
                    if cur is not None and cur.ty is None:
                        self.hint_if_forced(s1, name, alts[0])
                    return kt0(s1)
        return self.ev(e, st, lambda st1, v: self.branch(st1, self.truthy(st1, v), kt, kf))

    def hint_if_forced(self, st, name, ty):
        """static hint for a local, only when the path condition already forces that type (no new assumption)."""
        cur = st.locals[name]
        ts = TypeSpec(ty)
        fact = self.type_fact(cur.t, ts)
        if not self.feasible(st, z3.Not(fact)):
            sv = SV(cur.t, ts.single, cur.meta)
            if ts.elem is not None:
                sv.meta = ("elemtype", ts.elem)
            st.locals[name] = sv

    def loop_spec(self, node):
        k = self.loops.get((node.lineno, node.col_offset))
        spec = self.con.loops.get(k)
        if spec is None:
            return None, k
        if spec.fp is not None:
            hdr = ast.unparse(node.test) if isinstance(node, ast.While) else f"{ast.unparse(node.target)} in {ast.unparse(node.iter)}"
            if hdr.strip() != spec.fp.strip():
                raise Unsupported(f"loop {k} anchor moved: header is now {hdr!r}")
        return spec, k

    def assigned_names(self, stmts):
        names = set()
        for s in stmts:
            for n in ast.walk(s):
                if isinstance(n, ast.Name) and isinstance(n.ctx, ast.Store):
                    names.add(n.id)
        return names

    def ghost_names(self, stmts):
        out = set()
        for s in stmts:
            for n in ast.walk(s):
                if isinstance(n, ast.Call):
                    spec = self.con.opaque.get(ast.unparse(n.func))
                    if spec and spec.get("counter"):
                        out.add("ghost_" + spec["counter"])
        return out

    def written_fields(self, stmts):
        """Syntactic over-approximation of heap arrays a loop body may write."""
        fields = set()
        for s in stmts:
            for n in ast.walk(s):
                if isinstance(n, ast.Attribute) and isinstance(n.ctx, ast.Store):
                    fields.add(n.attr)
                elif isinstance(n, ast.Subscript) and isinstance(n.ctx, (ast.Store, ast.Del)):
                    fields.update(("$items", "$len", "$dhas", "$dval"))
                elif isinstance(n, ast.Call):
                    fields.update(self.call_written_fields(n))
        return fields

    def call_written_fields(self, call):
        f = call.func
        txt = ast.unparse(f)
        if txt in self.con.opaque:
            hv = self.con.opaque[txt].get("havoc", [])
            return self.havoc_fields(hv)
        if isinstance(f, ast.Attribute):
            if f.attr in LIST_MUTATORS | DICT_MUTATORS:
                # might be a list/dict/set mutator or a user method of that name
                out = {"$items", "$len", "$dhas", "$dval"}
                con = self.find_contract_by_method_name(f.attr)
                if con is not None:
                    out |= self.havoc_fields(con.modifies)
                return out
            con = self.find_contract_by_method_name(f.attr)
            if con is not None:
                return self.havoc_fields(con.modifies)
            if any(p == txt or p == f.attr for p in self.con.inline):
                return {"*"}
            if f.attr in ("get", "items", "values", "keys", "upper", "lower", "copy", "startswith", "endswith", "strip", "join", "index", "count", "find"):
                return set()
            return {"*"}
        if isinstance(f, ast.Name):
            if f.id in ("len", "isinstance", "bool", "str", "int", "any", "all", "tuple", "sorted", "reversed", "min", "max", "hash", "callable", "type", "range", "enumerate", "zip", "list", "set", "dict", "abs", "id", "repr", "iter", "next", "sum"):
                return set()
            return {"*"}
        return {"*"}

    def find_contract_by_method_name(self, name):
        for (rel, qn), con in C.REGISTRY.items():
            if qn.split(".")[-1] == name:
                return con
        return None

    def havoc_fields(self, modifies):
        if modifies is None:
            return {"*"}
        out = set()
        for m in modifies:
            if m == "*":
                return {"*"}
            if m.endswith("[]"):
                out.update(("$items", "$len"))
            elif m.endswith("{}"):
                out.update(("$dhas", "$dval", "$len"))
            elif "." in m:
                out.add(m.split(".")[-1])
        return out

    def havoc_state(self, st, names, fields):
        for n in names:
            if n in st.locals:
                t = smt.fresh(f"hv.{n}")
                if (n.startswith("_k") and n[2:].isdigit()) or n.startswith("ghost_"):
                    st.assume(smt.is_int(t))
                    st.locals[n] = SV(t, "int")
                else:
                    st.locals[n] = SV(t)
        if "*" in fields:
            self.havoc_all(st)
            return
        for f in fields:
            self.havoc_field_framed(st, f)
        st.havocked = True

    def havoc_field_framed(self, st, f):
        """Loop havoc of a heap array: locations the enclosing function may not write keep their value
        (every write inside the body is checked against the function frame by check_write)."""
        cur = st.H(f)
        new = fresh_array(f)
        al = self.allowed_refs(f)
        if al is None or self.con.modifies is None:
            st.setH(f, new)
        else:
            r = z3.Int(f"r!lf{self._qid()}")
            excl = [r != a for a in al]
            st.assume(z3.ForAll([r], z3.Implies(z3.And(r < self.entry.alloc, *excl), z3.Select(new, r) == z3.Select(cur, r)), patterns=[z3.Select(new, r)]))
            st.setH(f, new)
        self.written.add(f)

    def havoc_all(self, st):
        for f in list(st.heap):
            st.setH(f, fresh_array(f))
        st.heap_epoch = smt.fresh("epoch", IntS)
        a = smt.fresh("alloc", IntS)
        st.assume(a >= st.alloc)
        st.alloc = a
        st.havocked = True
        self.written.add("*")

    stable_types = frozenset()

    def x_While(self, s, st):
        spec, k = self.loop_spec(s)
        if spec is None:
            raise Unsupported(f"while loop {k} at line {s.lineno} has no invariant")
        return self.cut_loop(s, st, spec, k, test=s.test, body=s.body, pre_iter=None)

    def cut_loop(self, s, st, spec, k, test, body, pre_iter, loopvars=None, dispatch=None):
        """Invariant cut: assert inv; havoc; assume inv; one arbitrary iteration; exit path."""
        outs = []
        names = self.assigned_names(body) | set(loopvars or []) | self.ghost_names(body)
        fields = self.havoc_fields(spec.modifies) if spec.modifies is not None else self.written_fields(body)
        # 1. invariant holds on entry
        for inv in spec.inv:
            self.oblige(st, self.spec_bool(inv, st, st.locals), "inv-entry", s, f"loop{k}: {inv}")
        # 2. arbitrary iteration
        hs = st.copy()
        self.havoc_state(hs, names, fields)
        self.retype_locals(hs, st, names)
        for inv in spec.inv:
            hs.assume(self.spec_bool(inv, hs, hs.locals))
        if pre_iter is not None:
            pre_iter(hs)

        def after_body(o_st):
            for inv in spec.inv:
                self.oblige(o_st, self.spec_bool(inv, o_st, o_st.locals), "inv-pres", s, f"loop{k}: {inv}")
            if spec.dec is not None:
                d1 = Val.i(self.spec_val(spec.dec, o_st, o_st.locals).t)
                self.oblige(o_st, z3.And(d1 < dec0[0], dec0[0] >= 0), "dec", s, f"loop{k}: {spec.dec}")
            return []

        dec0 = [None]

        def run_body(bst):
            if spec.dec is not None:
                dec0[0] = Val.i(self.spec_val(spec.dec, bst, bst.locals).t)
            res = []
            for o in self.exec_block(body, bst):
                if o.kind in ("next", "continue"):
                    res += after_body(o.st)
                elif o.kind == "break":
                    res.append(Outcome("next", o.st))
                else:
                    res.append(o)
            return res

        def exit_loop(est):
            return self.exec_block(s.orelse, est) if s.orelse else [Outcome("next", est)]

        if test is None:
            outs += dispatch(hs, run_body, exit_loop)
        else:
            outs += self.ev_cond(test, hs, run_body, exit_loop)
        return outs

    def retype_locals(self, hs, st, names):
        """Loop-modified locals keep static hints only if the contract declares them (types['name'])."""
        for n in names:
            ty = self.con.types.get(n)
            if ty is not None and n in hs.locals:
                hs.locals[n] = self.typed(hs, hs.locals[n].t, ty)

    def x_For(self, s, st):
        spec, k = self.loop_spec(s)

        def with_iter(st1, it):
            plan = self.iter_plan(st1, it, s)
            if plan[0] == "static":
                # statically known finite sequence: unroll (complete, not a bound)
                return self.unroll_for(s, st1, plan[1])
            if spec is None:
                raise Unsupported(f"for loop {k} at line {s.lineno} has no invariant")
            return self.cut_for(s, st1, spec, k, plan)

        return self.ev_iter(s.iter, st, with_iter)

    def unroll_for(self, s, st, items):
        def step(i, st0):
            if i == len(items):
                return self.exec_block(s.orelse, st0) if s.orelse else [Outcome("next", st0)]
            outs = []
            for o in self.assign_target(s.target, items[i], st0, s):
                if o.kind != "next":
                    outs.append(o)
                    continue
                for o2 in self.exec_block(s.body, o.st):
                    if o2.kind in ("next", "continue"):
                        outs += step(i + 1, o2.st)
                    elif o2.kind == "break":
                        outs.append(Outcome("next", o2.st))
                    else:
                        outs.append(o2)
            return outs

        return step(0, st)

    def cut_for(self, s, st, spec, k, plan):
        """for-loop over a heap sequence: ghost index `_k<ordinal>` counts completed iterations."""
        kind, seq, start, elemfn = plan
        kname = f"_k{k}"
        st.locals[kname] = sv_int(0)
        st.locals[f"_seq{k}"] = seq
        tnames = {n.id for n in ast.walk(s.target) if isinstance(n, ast.Name)}

        def for_dispatch(hs, run_body, exit_loop):
            kk = Val.i(hs.locals[kname].t)
            hs.assume(kk >= 0)
            # the ghost key sequence of a dict / set iteration is immutable: its length is the one fixed at loop entry
            # (read from the heap it would be havocked with every other fresh list by the loop cut)
            n = seq.meta[2] if seq.meta and seq.meta[0] == "keyseq" else self.list_len(hs, seq.t)
            cond = start + kk < n

            def enter(bst):
                el = elemfn(bst, kk)
                outs = []
                for o in self.assign_target(s.target, el, bst, s):
                    if o.kind == "next":
                        for tn in tnames:
                            ty = self.con.types.get(tn)
                            if ty is not None and tn in o.st.locals:
                                # declared loop-variable type: proved, then used as a static hint
                                tv = o.st.locals[tn]
                                self.oblige(o.st, self.type_fact(tv.t, ty), "type", s, f"loop variable {tn} has type {ty}")
                                o.st.locals[tn] = self.typed(o.st, tv.t, ty)
                        outs += run_body(o.st)
                    else:
                        outs.append(o)
                return outs

            return self.branch(hs, cond, enter, exit_loop)

        # wrap the body so that the ghost counter is incremented at the end of each iteration
        body = list(s.body)
        inc = ast.parse(f"{kname} = {kname} + 1").body[0]
        # `continue` must also advance the counter: handled by rewriting continue -> (inc; continue)
        body2 = [_rewrite_continue(b, inc) for b in body] + [inc]
        return self.cut_loop(s, st, spec, k, test=None, body=body2, pre_iter=None, loopvars=tnames | {kname}, dispatch=for_dispatch)

    # ------------------------------------------------------------------ raise / try
    def x_Raise(self, s, st):
        # `raise X from e`: the cause only sets __cause__, which is not modelled
        if s.exc is None:
            if not getattr(self, "current_exc", None):
                raise Unsupported("bare raise outside handler")
            return [Outcome("raise", st, self.current_exc[-1])]
        return self.ev(s.exc, st, lambda st1, v: self.do_raise(st1, v, s))

    def do_raise(self, st, v, node):
        if v.meta and v.meta[0] == "class":
            ref = self.new_ref(st, cls=v.meta[1])
            v = SV(ref, "obj:" + v.meta[1].__name__)
            self.classes.by_name.setdefault(v.ty[4:], v.meta[1] if v.meta else None)
        return [Outcome("raise", st, v)]

    def raise_builtin(self, st, name, node):
        import builtins

        cls = getattr(builtins, name)
        self.classes.register(cls, name)
        ref = self.new_ref(st, cls=cls)
        st.raise_site = getattr(node, "lineno", 0)
        return [Outcome("raise", st, SV(ref, "obj:" + name))]

    def x_Try(self, s, st):
        outs = []
        body_outs = self.exec_block(s.body, st)
        after_handlers = []
        for o in body_outs:
            if o.kind == "raise":
                after_handlers += self.dispatch_handlers(s, o)
            elif o.kind == "next" and s.orelse:
                after_handlers += self.exec_block(s.orelse, o.st)
            else:
                after_handlers.append(o)
        if not s.finalbody:
            return after_handlers
        for o in after_handlers:
            for f in self.exec_block(s.finalbody, o.st):
                if f.kind == "next":
                    outs.append(Outcome(o.kind, f.st, o.val))
                else:
                    outs.append(f)  # finally overrides
        return outs

    def dispatch_handlers(self, s, o):
        """Match the raised exception object against the handlers, forking on its (symbolic) class."""
        outs = []
        st = o.st
        exc = o.val
        remaining = st
        for h in s.handlers:
            if h.type is None:
                classes = [BaseException]
            else:
                classes = self.handler_classes(h.type)
            cond = self.isinstance_term(remaining, exc, classes)
            c = z3.simplify(cond)
            if self.feasible(remaining, c):
                hs = remaining.copy()
                hs.assume(c)
                if h.name:
                    hs.locals[h.name] = exc
                self.current_exc = getattr(self, "current_exc", []) + [exc]
                try:
                    outs += self.exec_block(h.body, hs)
                finally:
                    self.current_exc = self.current_exc[:-1]
            if not self.feasible(remaining, z3.Not(c)):
                remaining = None
                break
            remaining = remaining.copy()
            remaining.assume(z3.Not(c))
        if remaining is not None:
            outs.append(Outcome("raise", remaining, exc))
        return outs

    def handler_classes(self, node):
        if isinstance(node, ast.Tuple):
            out = []
            for e in node.elts:
                out += self.handler_classes(e)
            return out
        sv = self.static_eval(node)
        if not (sv.meta and sv.meta[0] == "class"):
            raise Unsupported("except clause is not a class")
        self.classes.register(sv.meta[1])
        return [sv.meta[1]]

    def static_eval(self, node):
        if isinstance(node, ast.Name):
            return self.global_name(node.id)
        if isinstance(node, ast.Attribute):
            base = self.static_eval(node.value)
            return self.const_sv(getattr(base.meta[1], node.attr))
        raise Unsupported("static expression " + ast.unparse(node))


def _as_load(t):
    import copy

    t2 = copy.deepcopy(t)
    for n in ast.walk(t2):
        if hasattr(n, "ctx"):
            n.ctx = ast.Load()
    return t2


def _rewrite_continue(stmt, inc):
    import copy

    class R(ast.NodeTransformer):
        def visit_Continue(self, node):
            return [copy.deepcopy(inc), node]

        def visit_While(self, node):
            return node

        def visit_For(self, node):
            return node

        def visit_FunctionDef(self, node):
            return node

    new = R().visit(copy.deepcopy(stmt))
    ast.fix_missing_locations(new)
    return new
