"""The verifier for one function under contract: symbolic execution -> obligations -> SMT-LIB2 text."""
import ast
import traceback

import z3

from . import smt, source, contract as C
from .smt import Val, IntS
from .state import SV, State, Unsupported, ClassRegistry, initial_array, SV_NONE
from .base import Base, Oblig, Outcome
from .specev import SpecMixin
from .execu import ExecMixin
from .evalx import EvalMixin
from .callx import CallMixin


class Verifier(CallMixin, EvalMixin, ExecMixin, SpecMixin, Base):
    def __init__(self, con):
        ext = source.find_function(con.relpath, con.qualname)
        Base.__init__(self, ext, con)
        self.used_contracts = set()
        self.opaque_used = set()
        self.inlined = set()
        self.written = set()
        self.status = "ok"
        self.reason = ""
        self.paths = 0

    # ------------------------------------------------------------------ main
    def run(self):
        try:
            self._run()
        except Unsupported as ex:
            self.status = "undecided"
            self.reason = f"unsupported: {ex}"
        except RecursionError:
            self.status = "undecided"
            self.reason = "unsupported: recursion depth"
        except source.ExtractionError as ex:
            self.status = "undecided"
            self.reason = f"extraction: {ex}"
        except z3.Z3Exception as ex:
            self.status = "undecided"
            self.reason = f"encoding: {ex} {traceback.format_exc()[-600:]}"
        return self

    def _run(self):
        fn = self.ext.node
        if fn.decorator_list and not self.con.ghost.get("allow_decorators") and not self.con.slice_from:
            from .callx import _harmless_decorator

            bad = [ast.unparse(d) for d in fn.decorator_list if not _harmless_decorator(d)]
            if bad:
                raise Unsupported(f"decorated with {bad}")
        if self.con.slice_from:
            self.ext.node = self.extract_slice(fn, self.con.slice_from)
            fn = self.ext.node
        st = self.setup()
        # vacuity: the precondition must be satisfiable
        self.cover(st, "entry", "precondition satisfiable")
        outs = self.exec_block(fn.body, st)
        self.paths = len(outs)
        n_ret = 0
        for o in outs:
            if o.kind == "next":
                o = Outcome("return", o.st, SV_NONE)
            if o.kind == "return":
                n_ret += 1
                self.check_return(o)
            elif o.kind == "raise":
                self.check_raise(o)
            elif o.kind == "stop":
                self.check_stop(o)
            else:
                raise Unsupported(f"{o.kind} escaping function body")
        if self.con.must_fail:
            self.must_fail(outs)

    def extract_slice(self, fn, pattern):
        """Mechanical extraction of one statement of the real function as the unit under contract.  Dropped: every
        other statement of the function.  The statement's free variables become (symbolic) parameters."""
        import builtins
        from . import source as S

        hits = [n for n in ast.walk(fn) if isinstance(n, ast.stmt) and (ast.unparse(n).split("\n")[0].strip().startswith(pattern))]
        if len(hits) != 1:
            raise Unsupported(f"slice anchor {pattern!r} matches {len(hits)} statements")
        node = hits[0]
        stored = {n.id for n in ast.walk(node) if isinstance(n, ast.Name) and isinstance(n.ctx, ast.Store)}
        mod = S.real_module(self.ext.relpath)
        free = []
        for n in ast.walk(node):
            if isinstance(n, ast.Name) and isinstance(n.ctx, ast.Load) and n.id not in stored and n.id not in free:
                if n.id == "self" or not (hasattr(mod, n.id) or hasattr(builtins, n.id)):
                    free.append(n.id)
        free.sort(key=lambda x: (x != "self", x))
        args = ast.arguments(posonlyargs=[], args=[ast.arg(arg=p, annotation=None) for p in free], vararg=None, kwonlyargs=[], kw_defaults=[], kwarg=None, defaults=[])
        syn = ast.FunctionDef(name=fn.name, args=args, body=[node, ast.Return(value=ast.Constant(value=None))], decorator_list=[], returns=None)
        syn.lineno = node.lineno
        ast.fix_missing_locations(syn)
        self.note(f"slice contract: only the statement starting with {pattern!r} (line {node.lineno}) is under contract; free variables {free} are arbitrary values of their declared types")
        return syn

    def cover(self, st, tag, text):
        self._oid += 1
        o = Oblig(f"{self.ext.qualname}:cover:{tag}", "cover", st.pc, z3.BoolVal(False), 0, text)
        o.expect = "sat"
        self.obligs.append(o)

    def names_post(self, st):
        return dict(st.locals, **{k: v for k, v in self.entry.locals.items()}) if not self.con.ghost.get("post_uses_final_locals") else st.locals

    def check_return(self, o):
        st = o.st
        names = self.names_post(st)
        if self.con.stop_at:
            return  # slice contract: the postconditions are stated at the cut point; earlier returns are outside the slice
        for cl in self.con.ensures:
            g = self.spec_bool(cl, st, names, extra={"result": o.val})
            self.oblige(st, g, "post", None, cl)
        self.check_frame(st, "return")

    def check_stop(self, o):
        st = o.st
        for cl in self.con.ensures:
            g = self.spec_bool(cl, st, st.locals, extra={})
            self.oblige(st, g, "post", None, cl)

    def check_raise(self, o):
        st = o.st
        exc = o.val
        names = self.names_post(st)
        # which declared classes may this exception belong to?
        declared = list(self.con.raises.items())
        covered = []
        for cname, clauses in declared:
            cls = self.resolve_class_name(cname)
            isa = self.isinstance_term(st, exc, [cls])
            covered.append(isa)
            if not self.feasible(st, isa):
                continue
            s2 = st.copy()
            s2.assume(isa)
            for cl in clauses:
                g = self.spec_bool(cl, s2, names, extra={"exc": exc})
                self.oblige(s2, g, "exc-post", None, f"raises {cname}: {cl}")
            self.check_frame(s2, "raise")
        anycov = z3.Or(*covered) if covered else z3.BoolVal(False)
        line = getattr(st, "raise_site", 0)
        cname = exc.ty[4:] if exc.ty and exc.ty.startswith("obj:") else "exception"
        self.oblige(st, anycov, "exc", None, f"only declared exceptions escape (a {cname} raised at line {line} is not declared)")

    def check_frame(self, st, tag):
        return  # frame discipline is enforced at every write (Base.check_write)
        mods = self.con.modifies
        if mods is None or "*" in mods:
            return
        entry = self.entry
        allowed = {}  # field -> list of ref terms or None (= whole array)
        for m in mods:
            if m == "fresh":
                continue
            if m.startswith("*."):
                allowed[m[2:]] = None
                continue
            if m.endswith("[]") or m.endswith("{}"):
                tgt = self.spec_val(m[:-2], entry, entry.locals, old=entry)
                for f in (("$items", "$len") if m.endswith("[]") else ("$dhas", "$dval", "$len")):
                    if allowed.get(f, []) is not None:
                        allowed.setdefault(f, []).append(Val.r(tgt.t))
                continue
            objsrc, f = m.rsplit(".", 1)
            tgt = self.spec_val(objsrc, entry, entry.locals, old=entry)
            if allowed.get(f, []) is not None:
                allowed.setdefault(f, []).append(Val.r(tgt.t))
        fields = set(st.heap) | set(entry.heap)
        for f in sorted(fields):
            cur = st.H(f)
            old = entry.heap.get(f, initial_array(f))
            if cur is old or cur.eq(old):
                continue
            al = allowed.get(f, [])
            if al is None:
                continue
            r = z3.Int(f"r!frame{self._qid()}")
            excl = [r != a for a in al]
            g = z3.ForAll([r], z3.Implies(z3.And(r < entry.alloc, *excl), z3.Select(cur, r) == z3.Select(old, r)))
            self.oblige(st, g, "frame", None, f"{tag}: only {[m for m in mods]} modified (field {f})")

    def must_fail(self, outs):
        """Vacuity guard: each clause listed in must_fail has to be refutable on some return path."""
        for cl in self.con.must_fail:
            alts = []
            for o in outs:
                if o.kind in ("return", "next"):
                    val = o.val if o.kind == "return" else SV_NONE
                    g = self.spec_bool(cl, o.st, self.names_post(o.st), extra={"result": val})
                    alts.append(z3.And(*(o.st.pc + [z3.Not(g)])) if o.st.pc else z3.Not(g))
            ob = Oblig(f"{self.ext.qualname}:mustfail:{cl[:30]}", "mustfail", [z3.Or(*alts) if alts else z3.BoolVal(False)], z3.BoolVal(False), 0, cl)
            ob.expect = "sat"
            self.obligs.append(ob)

    # ------------------------------------------------------------------ SMT text
    def axioms(self):
        ax = list(self.global_axioms)
        ax += self.classes.axioms()
        ax += self.uf_axioms()
        return ax

    def uf_axioms(self):
        ax = []
        if "expr_eq" in self.uf:
            f = self.uf["expr_eq"]
            a, b, c = z3.Consts("a!eq b!eq c!eq", Val)
            ax.append(z3.ForAll([a, b], f(a, b) == f(b, a)))
            ax.append(z3.ForAll([a, b, c], z3.Implies(z3.And(f(a, b), f(b, c)), f(a, c))))
        if "truthy_obj" in self.uf:
            from .state import _all_subclasses

            tf = self.uf["truthy_obj"]
            r, e = z3.Ints("r!tr e!tr")
            for cls in list(self.classes.ids):
                if cls.__name__ == "Token" or cls is type or not isinstance(cls, type):
                    continue
                try:
                    fam = {cls} | _all_subclasses(cls)
                except TypeError:
                    continue
                if any("__bool__" in vars(c2) or "__len__" in vars(c2) for c1 in fam for c2 in c1.__mro__ if c2 is not object):
                    continue
                ax.append(z3.ForAll([r, e], z3.Implies(self.classes.isa(cls, smt.CLS[r]), tf(r, e)), patterns=[tf(r, e)]))
        for name, lam, src in C.AXIOMS:
            try:
                ax.append(self.translate_axiom(lam))
            except Unsupported:
                pass  # names of this axiom do not resolve in this function's module: dropping an assumption is sound
        return ax

    def translate_axiom(self, lam):
        params = [p.arg for p in lam.args.args]
        bound = [z3.Const(f"{p}!ax", Val) for p in params]
        env = {p: SV(b) for p, b in zip(params, bound)}
        st = State()
        for p, b in zip(params, bound):
            ty = getattr(lam, "_types", {}).get(p)
            if ty:
                env[p] = self.typed(st, b, ty)
        body = self.spec_bool(lam.body, st, {}, env=env, old=st)
        facts = z3.And(*st.pc) if st.pc else z3.BoolVal(True)
        return z3.ForAll(bound, z3.Implies(facts, body)) if bound else body

    def smt_text(self, ob, axioms):
        s = z3.Solver()
        for a in axioms:
            s.add(a)
        for p in ob.pc:
            s.add(p)
        s.add(z3.Not(ob.goal))
        return s.to_smt2()


def verify_contract(con):
    v = Verifier(con)
    v.run()
    return v
