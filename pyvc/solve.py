"""Solver portfolio: every query is SMT-LIB2 text run in a subprocess with a hard wall-clock kill.

A query is the negation of an obligation: `unsat` = discharged, `sat` = refuted (model returned),
anything else = unknown.  z3 5.1 first, then z3 4.8.12, then cvc5.  A sat/unsat disagreement between
solvers is a checker error.
"""
import os
import subprocess
import time
from concurrent.futures import ThreadPoolExecutor

SOLVERS = [
    ("z3-5.1-ematch", ["z3-new", "-in", "smt.mbqi=false"]),
    ("z3-5.1", ["z3-new", "-in"]),
    ("z3-4.8", ["/usr/bin/z3", "-in"]),
    ("cvc5", ["/usr/bin/cvc5", "--lang=smt2", "--strings-exp", "--incremental"]),
]


def _run(cmd, text, timeout):
    t0 = time.time()
    try:
        p = subprocess.run(cmd, input=text, capture_output=True, text=True, timeout=timeout)
        out = p.stdout.strip()
    except subprocess.TimeoutExpired:
        return "timeout", "", time.time() - t0
    first = out.split("\n", 1)[0].strip() if out else ""
    if first not in ("sat", "unsat", "unknown"):
        return "error", (out + "\n" + p.stderr)[:2000], time.time() - t0
    return first, out, time.time() - t0


def solve_text(smt2, timeout=10, want_model=True, portfolio=None):
    """returns dict(status, solver, time, model_text, attempts)"""
    attempts = []
    text = smt2
    if "(check-sat)" not in text:
        text += "\n(check-sat)\n"
    if want_model:
        text_m = text + "\n(get-model)\n"
    else:
        text_m = text
    result = {"status": "unknown", "solver": None, "time": 0.0, "model": "", "attempts": attempts}
    solvers = list(portfolio or SOLVERS)
    if portfolio is None and "map_ite_val" in text:
        # dict-merge combinators are declared functions with a defining axiom each (array `map` needs a declared symbol); the macro
        # finder substitutes the definitions, which makes satisfiability guards over them decidable
        solvers.insert(1, ("z3-5.1-macro", ["z3-new", "-in", "smt.macro_finder=true"]))
    for name, cmd in solvers:
        if name.startswith("cvc5"):
            t = "(set-logic ALL)\n(set-option :produce-models true)\n" + text_m
        else:
            t = text_m
        st, out, dt = _run(cmd, t, timeout)
        attempts.append((name, st, round(dt, 3)))
        result["time"] += dt
        if st in ("sat", "unsat"):
            result["status"] = st
            result["solver"] = name
            if st == "sat":
                result["model"] = out.split("\n", 1)[1] if "\n" in out else ""
            return result
    return result


def solve_many(items, timeout=10, workers=None, want_model=True):
    """items: list of (key, smt2 text) -> dict key -> result.  Threads drive subprocesses."""
    workers = workers or min(16, (os.cpu_count() or 4))
    out = {}
    with ThreadPoolExecutor(max_workers=workers) as ex:
        futs = {ex.submit(solve_text, txt, timeout, want_model): key for key, txt in items}
        for f, key in futs.items():
            out[key] = f.result()
    return out
