"""Projection mode (C05): index monotonicity of every parser method that moves the cursor backwards.

Tracked state: delta = self._index - (index at entry), as an integer interval, plus locals that snapshot the index.
Everything else is abstracted: conditions that do not involve the cursor are nondeterministic, every other method
call on `self` is assumed monotone (delta may only grow) -- the inductive hypothesis, which is exactly what is being
proved of each method in turn.  The cursor primitives are replaced by their PROVED contracts (contracts/parser_cursor.py):
_advance(n): +n; _retreat(i): index == i; _match/_match_set/_match_texts: True => +1 (if advance) / False => +0;
_match_pair: +2; _match_text_seq(t1..tn): +n / +0.

Obligation per method:  at every return, delta.lo >= 0   (a sub-parser never ends before its own entry index).
The analysis over-approximates, so "proved" is a proof; a flagged method is UNDECIDED on the pinned tree (listed, falls
to the bounded check) and a VIOLATION only under the regression rule (it was proved at baseline).
"""
import argparse
import ast
import glob
import hashlib
import json
import os
import sys
import time

REPO = os.environ.get("VERIF_REPO", "/repo")
INF = None
MATCHERS = {"_match": 1, "_match_set": 1, "_match_texts": 1, "_match_pair": 2, "_match_text_seq": "n"}
MAYBE_ONE = {"_match_l_paren", "_match_r_paren"}  # consume one token or record an error
MAX_STATES = 48


class St:
    __slots__ = ("lo", "hi", "snaps", "truth", "gen", "pend", "nm")

    def __init__(self, lo=0, hi=0, snaps=None, truth=None, gen=0, pend=None, nm=0):
        self.lo, self.hi = lo, hi
        self.snaps = dict(snaps or {})
        self.truth = dict(truth or {})
        self.gen = gen  # bumped by every cursor-affecting operation
        self.pend = dict(pend or {})  # local name -> ('res', lo_before, hi_before, gen_after): result of a sub-parser call
        self.nm = nm  # gen of the last operation that may have moved the cursor BACK (0: none yet)

    def copy(self):
        return St(self.lo, self.hi, self.snaps, self.truth, self.gen, self.pend, self.nm)

    def shift(self, a, b=None):
        b = a if b is None else b
        s = self.copy()
        s.gen += 1
        s.truth.pop("$curr", None)
        if a is None or a < 0:
            s.nm = s.gen
        s.lo = None if s.lo is None else s.lo + a
        s.hi = None if (s.hi is None or b is None) else s.hi + b
        return s

    def mono(self):
        s = self.copy()
        s.hi = INF
        s.truth = {}
        s.gen += 1
        return s

    def key(self):
        return (self.lo, self.hi, tuple(sorted(self.snaps.items())), tuple(sorted(self.truth.items())), self.gen, tuple(sorted(self.pend.items())), self.nm)


def hull(states):
    lo = None if any(s.lo is None for s in states) else min(s.lo for s in states)
    hi = None if any(s.hi is None for s in states) else max(s.hi for s in states)
    snaps = {}
    for k in set.intersection(*[set(s.snaps) for s in states]):
        los = [s.snaps[k][0] for s in states]
        his = [s.snaps[k][1] for s in states]
        snaps[k] = (None if any(x is None for x in los) else min(los), None if any(x is None for x in his) else max(his))
    g = max(s.gen for s in states) + 1
    return St(lo, hi, snaps, {}, g, {}, g if any(s.nm for s in states) else 0)


def dedup(states):
    seen, out = set(), []
    for s in states:
        k = s.key()
        if k not in seen:
            seen.add(k)
            out.append(s)
    if len(out) > MAX_STATES:
        out = [hull(out)]
    return out


class Analyzer:
    def __init__(self, fn, bounds=None, tables=None):
        self.fn = fn
        self.use_convention = False  # loop-progress mode only: sub-parser result convention P1/P2
        self.bounds = bounds or {}  # method name -> lower bound of its index delta (0 or negative)
        self.tables = tables or {}  # dispatch table name -> set of method names its entries call
        self.returns = []  # (St, lineno)
        self.notes = []

    # ------------------------------------------------------------------ expressions -> [(St, val)]
    # val: True / False / None(unknown) / ('idx', lo, hi)
    def ev(self, e, st):
        if e is None:
            return [(st, None)]
        if isinstance(e, ast.Constant):
            if isinstance(e.value, bool) or e.value is None:
                return [(st, bool(e.value))]
            if isinstance(e.value, int):
                return [(st, ("int", e.value))]
            return [(st, None)]
        if isinstance(e, ast.Name):
            if e.id in st.pend:
                return [(st, st.pend[e.id])]
            if e.id in st.snaps:
                lo, hi = st.snaps[e.id]
                return [(st, ("idx", lo, hi))]
            if e.id in st.truth:
                return [(st, st.truth[e.id])]
            return [(st, None)]
        if isinstance(e, ast.Attribute):
            if isinstance(e.value, ast.Name) and e.value.id == "self" and e.attr in ("_index", "_curr"):
                # self._curr is the token AT self._index (distinct objects per position, proved by the cursor contracts):
                # for snapshots and equality tests it stands for the index
                return [(st, ("idx", st.lo, st.hi))]
            return [(s, None) for s, _ in self.ev(e.value, st)]
        if isinstance(e, ast.UnaryOp):
            outs = self.ev(e.operand, st)
            if isinstance(e.op, ast.Not):
                return [(s, (not v) if isinstance(v, bool) else (("nres",) + v[1:] if isinstance(v, tuple) and v[0] == "res" else (("res",) + v[1:] if isinstance(v, tuple) and v[0] == "nres" else None))) for s, v in outs]
            if isinstance(e.op, ast.USub):
                return [(s, ("int", -v[1]) if isinstance(v, tuple) and v[0] == "int" else None) for s, v in outs]
            return [(s, None) for s, v in outs]
        if (isinstance(e, ast.BoolOp) and isinstance(e.op, ast.Or) and self.use_convention
                and all(isinstance(v, ast.Call) and isinstance(v.func, ast.Attribute) and isinstance(v.func.value, ast.Name) and v.func.value.id == "self"
                        and self.is_parser_name(v.func.attr) and not v.args and not v.keywords for v in e.values)):
            # P1/P2 compose: all falsy => every one restored the index; truthy => the truthy one consumed >= 1 from it
            m_ = st.mono()
            return [(m_, ("res", st.lo, st.hi, m_.gen))]
        if isinstance(e, ast.BoolOp):
            is_and = isinstance(e.op, ast.And)
            cur = [(st, None, True)]  # (state, value, still evaluating)
            results = []
            pending = [(st, None)]
            for i, sub in enumerate(e.values):
                nxt = []
                for s, _ in pending:
                    for s2_, v_ in self.ev(sub, s):
                      for s2, v in self.split(s2_, v_):
                        if i == len(e.values) - 1:
                            results.append((s2, v if isinstance(v, bool) else None))
                        elif v is True:
                            (nxt if is_and else results).append((s2, True)) if is_and else results.append((s2, True))
                            if is_and:
                                pass
                        elif v is False:
                            if is_and:
                                results.append((s2, False))
                            else:
                                nxt.append((s2, False))
                        else:
                            # unknown truth: may stop here (then `and` is falsy / `or` is truthy) or continue
                            results.append((s2, False if is_and else True))
                            nxt.append((s2, None))
                pending = nxt
            return self._dd(results)
        if isinstance(e, ast.IfExp):
            outs = []
            for s_, v_ in self.ev(e.test, st):
                for s, v in self.split(s_, v_):
                    if v is not False:
                        outs += self.ev(e.body, s)
                    if v is not True:
                        outs += self.ev(e.orelse, s)
            return self._dd(outs)
        if isinstance(e, ast.BinOp):
            outs = []
            for s, a in self.ev(e.left, st):
                for s2, b in self.ev(e.right, s):
                    outs.append((s2, self.arith(e.op, a, b)))
            return outs
        if isinstance(e, ast.NamedExpr):
            outs = []
            for s, v in self.ev(e.value, st):
                s = s.copy()
                self.bind(s, e.target.id, v)
                outs.append((s, v))
            return outs
        if isinstance(e, ast.Call):
            return self.call(e, st)
        if isinstance(e, (ast.Lambda, ast.FunctionDef)):
            return [(st, None)]
        if (isinstance(e, ast.Compare) and len(e.ops) == 1 and isinstance(e.ops[0], (ast.Is, ast.IsNot)) and isinstance(e.left, ast.Name)
                and e.left.id in st.pend and isinstance(e.comparators[0], ast.Constant) and e.comparators[0].value is None):
            v = st.pend[e.left.id]
            return [(st, (("nres",) + v[1:]) if isinstance(e.ops[0], ast.Is) else v)]
        if isinstance(e, ast.Compare) and len(e.ops) == 1 and isinstance(e.ops[0], (ast.Eq, ast.NotEq)):
            def is_idx(x):
                return isinstance(x, ast.Attribute) and isinstance(x.value, ast.Name) and x.value.id == "self" and x.attr in ("_index", "_curr")

            l, r = e.left, e.comparators[0]
            nm = r if is_idx(l) else (l if is_idx(r) else None)
            if isinstance(nm, ast.Name) and nm.id in st.snaps:
                slo, shi = st.snaps[nm.id]
                if slo is not None and slo == shi and st.lo is not None and st.lo >= slo:
                    # the cursor has not moved back past the snapshot: either it is exactly there, or strictly beyond
                    is_eq = isinstance(e.ops[0], ast.Eq)
                    outs = []
                    if st.lo == slo:
                        same = st.copy()
                        same.lo, same.hi = slo, slo
                        outs.append((same, is_eq))
                    if st.hi is None or st.hi > slo:
                        moved = st.copy()
                        moved.lo = max(st.lo, slo + 1)
                        outs.append((moved, not is_eq))
                    return outs
        if isinstance(e, ast.Compare):
            states = [st]
            for sub in [e.left] + list(e.comparators):
                states = [s2 for s in states for s2, _ in self.ev(sub, s)]
            return [(s, None) for s in dedup(states)]
        # generic: evaluate children left to right for their effects
        states = [st]
        for child in ast.iter_child_nodes(e):
            if isinstance(child, ast.expr):
                states = [s2 for s in states for s2, _ in self.ev(child, s)]
            elif isinstance(child, ast.comprehension):
                # comprehension bodies run 0+ times: monotone effects only if they call self methods
                if any(isinstance(n, ast.Name) and n.id == "self" for n in ast.walk(e)):
                    states = [s.mono() for s in states]
        return [(s, None) for s in dedup(states)]

    @staticmethod
    def is_parser_name(name):
        # _try_parse(f) returns f's result and retreats when it is falsy: the convention transfers
        return name.startswith(("_parse", "parse_")) or name == "_try_parse"

    def _dd(self, outs):
        seen, res = set(), []
        for s, v in outs:
            k = (s.key(), v if not isinstance(v, tuple) else v)
            if k not in seen:
                seen.add(k)
                res.append((s, v))
        if len(res) > MAX_STATES:
            res = [(hull([s for s, _ in res]), None)]
        return res

    def split(self, s, v):
        """[(state, True|False|None)] for a condition value; a pending sub-parser result forks under the convention
        (P1) falsy result => the sub-parser restored the index, (P2) truthy result => it consumed at least one token --
        applied only if nothing touched the cursor since the call."""
        if isinstance(v, tuple) and v[0] in ("res", "nres"):
            _, lo0, hi0, gen = v
            if not self.use_convention:
                return [(s, None)]
            if s.gen != gen:
                # the cursor was touched after the call.  P1 (falsy => restored) says nothing any more; P2 (truthy => at
                # least one token consumed at that time) still bounds the cursor from below if nothing since could move it
                # back
                if s.nm > gen or lo0 is None:
                    return [(s, None)]
                t = s.copy()
                t.lo = lo0 + 1 if t.lo is None else max(t.lo, lo0 + 1)
                return [(t, True), (s, False)] if v[0] == "res" else [(t, False), (s, True)]
            t, f = s.copy(), s.copy()
            if lo0 is not None:
                t.lo = lo0 + 1 if t.lo is None else max(t.lo, lo0 + 1)
            f.lo, f.hi = lo0, hi0
            return [(t, True), (f, False)] if v[0] == "res" else [(t, False), (f, True)]
        return [(s, v if isinstance(v, bool) else None)]

    def arith(self, op, a, b):
        def rng(v):
            if isinstance(v, tuple) and v[0] == "int":
                return (v[1], v[1])
            return None

        if isinstance(a, tuple) and a[0] == "idx":
            r = rng(b)
            if r is None:
                # idx - (1 or 2) style: try IfExp-like unknown small constants
                return ("idx", None, None) if not (isinstance(b, tuple) and b[0] == "range") else self._idx_range(op, a, b)
            k = r[0]
            if isinstance(op, ast.Sub):
                k = -k
            elif not isinstance(op, ast.Add):
                return ("idx", None, None)
            return ("idx", None if a[1] is None else a[1] + k, None if a[2] is None else a[2] + k)
        if isinstance(a, tuple) and a[0] == "int" and isinstance(b, tuple) and b[0] == "int":
            if isinstance(op, ast.Add):
                return ("int", a[1] + b[1])
            if isinstance(op, ast.Sub):
                return ("int", a[1] - b[1])
        return None

    def bind(self, st, name, v):
        st.snaps.pop(name, None)
        st.truth.pop(name, None)
        st.pend.pop(name, None)
        if isinstance(v, tuple) and v[0] == "res":
            st.pend[name] = v
        if isinstance(v, tuple) and v[0] == "idx":
            st.snaps[name] = (v[1], v[2])
        elif isinstance(v, bool):
            st.truth[name] = v

    def call(self, e, st):
        f = e.func
        # evaluate arguments first (they may contain matcher calls)
        states = [st]
        argvals = []
        for a in list(e.args) + [k.value for k in e.keywords]:
            new = []
            for s in states:
                for s2, v in self.ev(a.value if isinstance(a, ast.Starred) else a, s):
                    new.append((s2, v))
            argvals.append([v for _, v in new])
            states = dedup([s for s, _ in new])
        is_self_method = isinstance(f, ast.Attribute) and isinstance(f.value, ast.Name) and f.value.id == "self"
        name = f.attr if isinstance(f, ast.Attribute) else (f.id if isinstance(f, ast.Name) else "")
        outs = []
        if is_self_method and name in MATCHERS:
            adv = True
            for k in e.keywords:
                if k.arg == "advance":
                    adv = k.value.value if isinstance(k.value, ast.Constant) else None
            if name in ("_match", "_match_set", "_match_texts") and len(e.args) >= 2 and isinstance(e.args[1], ast.Constant):
                adv = e.args[1].value
            n = MATCHERS[name]
            if n == "n":
                n = len([a for a in e.args if not isinstance(a, ast.Starred)])
                if any(isinstance(a, ast.Starred) for a in e.args):
                    n = None
            for s in states:
                outs.append((s, False))
                if adv is True:
                    outs.append((s.shift(n) if n is not None else s.mono(), True))
                elif adv is False:
                    outs.append((s, True))
                else:
                    outs.append((s, True))
                    outs.append((s.shift(n) if n is not None else s.mono(), True))
            return self._dd(outs)
        if is_self_method and name in MAYBE_ONE:
            for s in states:
                outs.append((s, None))
                outs.append((s.shift(1), None))
            return self._dd(outs)
        if is_self_method and name in ("_advance", "_retreat"):
            states = [x.copy() for x in states]
            for x in states:
                x.gen += 1
                if name == "_retreat":
                    x.nm = x.gen
        if is_self_method and name == "_advance":
            amt = 1
            if e.args:
                v = self.ev(e.args[0], st)[0][1]
                amt = v[1] if isinstance(v, tuple) and v[0] == "int" else None
            for s in states:
                outs.append((s.shift(amt) if amt is not None else St(None, None, s.snaps, {}, s.gen + 1, {}, s.gen + 1), None))
            return outs
        if is_self_method and name == "_retreat":
            for s in states:
                vs = [v for s2, v in self.ev(e.args[0], s)] if e.args else [None]
                for v in vs:
                    s2 = s.copy()
                    if isinstance(v, tuple) and v[0] == "idx":
                        s2.lo, s2.hi = v[1], v[2]
                    else:
                        s2.lo, s2.hi = None, None
                    outs.append((s2, None))
            return self._dd(outs)
        if is_self_method and name == "_is_connected":
            outs = []
            for s in states:
                t = s.copy()
                t.truth["$curr"] = True  # _is_connected() is `self._prev and self._curr and adjacent`: a current token exists
                outs += [(t, True), (s, False)]
            return outs
        if is_self_method and name == "_advance_any":
            ign = any(k.arg == "ignore_reserved" and isinstance(k.value, ast.Constant) and k.value.value is True for k in e.keywords)
            outs = []
            for s in states:
                if ign and s.truth.get("$curr"):
                    outs.append((s.shift(1), None))  # `if self._curr and (ignore_reserved or ...)`: advances
                else:
                    outs += [(s, None), (s.shift(1), None)]
            return self._dd(outs)
        if is_self_method and name == "_advance_chunk":
            # the next statement batch: strictly more input consumed (the chunk index increases, contract in parser_cursor.py)
            return [(s.shift(1), None) for s in states]
        if is_self_method and name in ("_find_sql", "_add_comments", "raise_error", "_warn_unsupported", "validate_expression"):
            return [(s, None) for s in states]
        if is_self_method and name == "expression":
            return [(s, None) for s in states]
        # any other call that can reach the parser: monotone (inductive hypothesis)
        touches_self = is_self_method or any(isinstance(n, ast.Name) and n.id == "self" for a in list(e.args) + [k.value for k in e.keywords] for n in ast.walk(a)) or (
            isinstance(f, ast.Subscript) and any(isinstance(n, ast.Name) and n.id == "self" for n in ast.walk(f))
        ) or (isinstance(f, ast.Name) and f.id in ("parse_method", "parser", "callback", "method", "func", "fn"))
        if isinstance(f, ast.Attribute) and not is_self_method:
            states = dedup([s2 for s in states for s2, _ in self.ev(f.value, s)])
            if isinstance(f.value, ast.Call) and isinstance(f.value.func, ast.Name) and f.value.func.id == "super":
                touches_self = True
        if touches_self and not (isinstance(f, ast.Attribute) and isinstance(f.value, ast.Name) and f.value.id in ("exp", "t", "seq_get", "logger")):
            b = 0
            tnames = []
            if is_self_method:
                b = self.bounds.get(name, 0)
            else:
                # a call through a dispatch table: self.X_PARSERS[...](self, ...) / self.X.get(...)(...)
                tnames = [n.attr for n in ast.walk(f) if isinstance(n, ast.Attribute) and isinstance(n.value, ast.Name) and n.value.id == "self" and n.attr in self.tables]
                for tn in tnames:
                    for m in self.tables[tn]:
                        b = min(b, self.bounds.get(m, 0))
                if not tnames and isinstance(f, ast.Name):
                    b = min([0] + [self.bounds[m] for m in self.bounds]) if f.id in ("parser",) else 0
            outs = []
            is_parser = (is_self_method and self.is_parser_name(name)) or bool(tnames if not is_self_method else False)
            for s in states:
                m_ = s.mono()
                if b < 0:
                    m_.nm = m_.gen
                    m_.lo = None if m_.lo is None else m_.lo + b
                outs.append((m_, ("res", s.lo, s.hi, m_.gen) if is_parser else None))
            return outs
        return [(s, None) for s in states]

    # ------------------------------------------------------------------ statements -> list of St (fall-through)
    def block(self, stmts, states):
        for s in stmts:
            if not states:
                break
            states = dedup(self.stmt(s, states))
        return states

    def stmt(self, s, states):
        out = []
        if isinstance(s, (ast.Expr,)):
            for st in states:
                out += [s2 for s2, _ in self.ev(s.value, st)]
            return out
        if isinstance(s, (ast.Assign, ast.AnnAssign)):
            if s.value is None:
                return states
            targets = s.targets if isinstance(s, ast.Assign) else [s.target]
            for st in states:
                for s2, v in self.ev(s.value, st):
                    s2 = s2.copy()
                    for t in targets:
                        if isinstance(t, ast.Name):
                            self.bind(s2, t.id, v)
                        elif isinstance(t, ast.Attribute) and isinstance(t.value, ast.Name) and t.value.id == "self" and t.attr == "_index":
                            if isinstance(v, tuple) and v[0] == "idx":
                                s2.lo, s2.hi = v[1], v[2]
                            else:
                                s2.lo, s2.hi = None, None
                        elif isinstance(t, (ast.Tuple, ast.List)):
                            for n in ast.walk(t):
                                if isinstance(n, ast.Name):
                                    s2.snaps.pop(n.id, None)
                                    s2.truth.pop(n.id, None)
                    out.append(s2)
            return out
        if isinstance(s, ast.AugAssign):
            for st in states:
                for s2, v in self.ev(s.value, st):
                    s2 = s2.copy()
                    if isinstance(s.target, ast.Attribute) and s.target.attr == "_index" and isinstance(s.target.value, ast.Name) and s.target.value.id == "self":
                        k = v[1] if isinstance(v, tuple) and v[0] == "int" else None
                        if k is not None and isinstance(s.op, (ast.Add, ast.Sub)):
                            k = k if isinstance(s.op, ast.Add) else -k
                            s2 = s2.shift(k)
                        else:
                            s2.lo, s2.hi = None, None
                    elif isinstance(s.target, ast.Name):
                        s2.snaps.pop(s.target.id, None)
                        s2.truth.pop(s.target.id, None)
                    out.append(s2)
            return out
        if isinstance(s, ast.Return):
            for st in states:
                for s2, _ in self.ev(s.value, st):
                    self.returns.append((s2, s.lineno))
            return []
        if isinstance(s, ast.Raise):
            return []
        if isinstance(s, ast.If):
            for st in states:
                for s2_, v_ in self.ev(s.test, st):
                    for s2, v in self.split(s2_, v_):
                        if v is not False:
                            out += self.block(s.body, [s2])
                        if v is not True:
                            out += self.block(s.orelse, [s2])
            return out
        if isinstance(s, (ast.While, ast.For)):
            return self.loop(s, states)
        if isinstance(s, ast.Try):
            body_out = self.block(s.body, list(states))
            # a handler may start from any point of the body: entry states with monotone effects
            hstart = [hull(list(states) + body_out).mono()] if (states or body_out) else []
            if hstart:
                hstart[0].lo = min([x.lo if x.lo is not None else -10**9 for x in list(states) + body_out])
                if hstart[0].lo <= -10**9:
                    hstart[0].lo = None
            for h in s.handlers:
                out += self.block(h.body, [x.copy() for x in hstart])
            out += self.block(s.orelse, body_out) if s.orelse else body_out
            if s.finalbody:
                out = self.block(s.finalbody, out)
            return out
        if isinstance(s, ast.With):
            return self.block(s.body, states)
        if isinstance(s, (ast.FunctionDef, ast.ClassDef, ast.Pass, ast.Import, ast.ImportFrom, ast.Global, ast.Nonlocal, ast.Assert, ast.Delete)):
            return states
        if isinstance(s, (ast.Break, ast.Continue)):
            # treated as fall-through to the loop exit / next iteration by the loop handler
            for st in states:
                st2 = st.copy()
                st2.truth["$" + type(s).__name__] = True
                out.append(st2)
            return out
        if isinstance(s, ast.Match):
            for st in states:
                for c in s.cases:
                    out += self.block(c.body, [st.mono()])
            return out
        self.notes.append(f"unhandled statement {type(s).__name__} at {s.lineno}")
        return [st.mono() for st in states]

    def loop(self, s, states):
        exits = []
        cur = list(states)
        if isinstance(s, ast.For):
            cur = dedup([s2 for st in cur for s2, _ in self.ev(s.iter, st)])
        seen = []
        for it in range(8):
            if not cur:
                break
            entering = []
            if isinstance(s, ast.While):
                for st in cur:
                    for s2_, v_ in self.ev(s.test, st):
                        for s2, v in self.split(s2_, v_):
                            if v is not False:
                                entering.append(s2)
                            if v is not True:
                                exits.append(s2)
            else:
                exits += cur
                entering = [st.copy() for st in cur]
                for st in entering:
                    for n in ast.walk(s.target):
                        if isinstance(n, ast.Name):
                            st.snaps.pop(n.id, None)
                            st.truth.pop(n.id, None)
            body_out = self.loop_body(s.body, entering, exits)
            if it >= 3:
                # widen
                h = hull(body_out + seen) if (body_out or seen) else None
                if h is not None:
                    base = hull(seen) if seen else h
                    if h.lo is None or (base.lo is not None and h.lo < base.lo):
                        h.lo = None
                    if h.hi is None or (base.hi is not None and h.hi > base.hi):
                        h.hi = None
                    body_out = [h]
            new = [b for b in dedup(body_out) if b.key() not in {x.key() for x in seen}]
            seen = dedup(seen + new)
            cur = new
        else:
            h = hull(seen + exits) if (seen or exits) else None
            if h is not None:
                h.lo = None if any(x.lo is None for x in seen) else h.lo
                exits.append(h)
        if s.orelse:
            exits = self.block(s.orelse, dedup(exits))
        return dedup(exits)

    def loop_body(self, body, entering, exits):
        states = entering
        for stmt in body:
            if not states:
                break
            nxt = []
            for st in dedup(self.stmt(stmt, states)):
                if st.truth.pop("$Break", None):
                    exits.append(st)
                elif st.truth.pop("$Continue", None):
                    nxt.append(st)  # approximated: continues with the following statements skipped below
                    st.truth["$skip"] = True
                else:
                    nxt.append(st)
            cont = [x for x in nxt if x.truth.pop("$skip", None)]
            states = [x for x in nxt if x not in cont]
            self._cont = getattr(self, "_cont", []) + cont
        res = states + getattr(self, "_cont", [])
        self._cont = []
        return res

    def run(self):
        end = self.block(self.fn.body, [St()])
        for st in end:
            self.returns.append((st, getattr(self.fn, "end_lineno", 0)))
        own = self.bounds.get(self.fn.name, 0)
        self.min_lo = min([(-(10**9) if st.lo is None else st.lo) for st, _ in self.returns] or [0])
        bad = [(st, ln) for st, ln in self.returns if st.lo is None or st.lo < own]
        return bad


def _break_continue_fix(fn):
    return fn


def loop_progress(fn):
    """For every `while` loop of the method: the states that reach the loop head again after one iteration that started
    at delta == 0.  Progress is proved if every such state has delta.lo >= 1 (strictly more input consumed)."""
    out = []
    loops = [n for n in ast.walk(fn) if isinstance(n, ast.While)]
    for k, w in enumerate(loops):
        # a loop whose test and body never touch the parser (no call on / with `self`) consumes no input at all: it walks a
        # finished tree (parent / child links) and is outside this obligation
        touches = any(isinstance(n, ast.Call) and any(isinstance(m, ast.Name) and m.id == "self" for m in ast.walk(n)) for n in [w.test] + list(ast.walk(w)))
        if not touches:
            out.append((k, w, 10**9, "not-a-token-loop"))
            continue
        # statement batches: the measure is the chunk index, advanced unconditionally at the loop head by _advance_chunk
        # (contract in contracts/parser_cursor.py: _chunk_index increases by one)
        head = w.body[0] if w.body else None
        if (isinstance(head, ast.Expr) and isinstance(head.value, ast.Call) and isinstance(head.value.func, ast.Attribute)
                and head.value.func.attr == "_advance_chunk" and "_chunk_index" in ast.unparse(w.test)):
            out.append((k, w, 10**9, "chunk-index-measure"))
            continue
        an = Analyzer(fn)
        an.use_convention = True
        exits = []
        entering = []
        for s2_, v_ in an.ev(w.test, St()):
            for s2, v in an.split(s2_, v_):
                if v is not False:
                    entering.append(s2)
        try:
            back = an.loop_body(w.body, entering, exits)
        except RecursionError:
            out.append((k, w, None, "recursion"))
            continue
        # only the states that pass the loop test again start another iteration (the test itself may consume input, or
        # be the truth of a sub-parser result)
        again = []
        for b in back:
            for s2_, v_ in an.ev(w.test, b):
                for s2, v in an.split(s2_, v_):
                    if v is not False:
                        again.append(s2)
        lo = min([(-(10**9) if b.lo is None else b.lo) for b in again] or [10**9])
        out.append((k, w, lo, ""))
    return out


def load_parsers():
    files = [os.path.join(REPO, "sqlglot/parser.py")] + sorted(glob.glob(os.path.join(REPO, "sqlglot/parsers/*.py")))
    methods = []  # (rel, cls, fn, sha, seg)
    tables = {}
    for path in files:
        src = open(path, encoding="utf-8").read()
        tree = ast.parse(src)
        for cls in [n for n in tree.body if isinstance(n, ast.ClassDef)]:
            for node in cls.body:
                if isinstance(node, ast.FunctionDef):
                    seg = ast.get_source_segment(src, node) or ""
                    methods.append((os.path.relpath(path, REPO), cls.name, node, hashlib.sha256(seg.encode()).hexdigest(), seg))
                elif isinstance(node, (ast.Assign, ast.AnnAssign)) and node.value is not None:
                    tgt = node.targets[0] if isinstance(node, ast.Assign) else node.target
                    if isinstance(tgt, ast.Name) and tgt.id.isupper():
                        called = {n.func.attr for n in ast.walk(node.value) if isinstance(n, ast.Call) and isinstance(n.func, ast.Attribute)
                                  and isinstance(n.func.value, ast.Name) and n.func.value.id == "self"}
                        # also plain references: "X": _parse_foo   /  Parser._parse_foo
                        called |= {n.attr for n in ast.walk(node.value) if isinstance(n, ast.Attribute) and n.attr.startswith("_parse")}
                        if called:
                            tables.setdefault(tgt.id, set()).update(called)
    return methods, tables


SKIP = {"_advance", "_retreat", "_advance_chunk", "reset", "__init__", "_parse", "_parse_batch_statements"} | set(MATCHERS)


def moves_back(seg):
    return "_retreat(" in seg or "_advance(-" in seg or "self._index =" in seg or "self._index -=" in seg


def analyse_all():
    """Least fixpoint of per-method lower bounds: start from 0 (monotone); a method that un-consumes the keyword its
    dispatcher matched gets bound -1, and then every method that calls it (directly or through a dispatch table) is
    analysed against that weaker callee contract and must still meet its own bound."""
    methods, tables = load_parsers()
    by_name = {}
    for rec in methods:
        by_name.setdefault(rec[2].name, []).append(rec)
    bounds = {}
    selected = {rec[2].name for rec in methods if moves_back(rec[4]) and rec[2].name not in SKIP}
    results = {}
    for rnd in range(1):  # one round: all callees assumed monotone (the refinement with weaker callee contracts cascades too far)
        changed = False
        results = {}
        for name in sorted(selected):
            for rel, cls, fn, sha, seg in by_name[name]:
                if not (moves_back(seg) or _calls_weak(fn, bounds, tables)):
                    continue
                an = Analyzer(fn, bounds, tables)
                try:
                    an.run()
                    lo = an.min_lo
                    status = "ok"
                except RecursionError:
                    lo, status = -(10**9), "undecided"
                results[(rel, cls, name)] = (fn, sha, lo, status, an)
    return results, bounds, tables


def _calls_weak(fn, bounds, tables):
    weak = {m for m, b in bounds.items() if b < 0}
    if not weak:
        return False
    for n in ast.walk(fn):
        if isinstance(n, ast.Attribute) and isinstance(n.value, ast.Name) and n.value.id == "self":
            if n.attr in weak or (n.attr in tables and tables[n.attr] & weak):
                return True
    return False


def main():
    ap = argparse.ArgumentParser()
    ap.add_argument("--out")
    ap.add_argument("-v", action="store_true")
    a = ap.parse_args()
    t0 = time.time()
    results, bounds, tables = analyse_all()
    functions = []
    for (rel, cls, mname), (fn, sha, lo, status, an) in sorted(results.items()):
        own = bounds.get(mname, 0)
        name = f"{rel}:{cls}.{mname}"
        ok = status == "ok" and lo >= own
        # an entry point of the grammar (not reached through a dispatcher that consumed a token) must be monotone
        bad = [(st, ln) for st, ln in an.returns if st.lo is None or st.lo < own]
        text = ("self._index >= old(self._index) at every return" if own == 0 else
                f"self._index >= old(self._index) - {-own} at every return (un-consumes the keyword its dispatcher matched); every caller is checked against this weaker contract")
        functions.append({
            "function": name, "props": ["C05"], "sha256": sha, "lineno": fn.lineno, "status": status, "reason": "", "paths": max(1, len(an.returns)),
            "assumptions": ["projection on the cursor: non-cursor conditions are nondeterministic; callees satisfy their own inferred index bound (inductive hypothesis, each checked in turn)"],
            "opaque": [], "inlined": [], "callee_contracts": ["Parser._advance", "Parser._retreat", "Parser._match*"], "gen_s": 0, "projection": True,
            "bound": own, "delta_lo": lo,
            "obligations": [{
                "id": f"{cls}.{mname}:index-bound", "kind": "post", "text": text, "line": fn.lineno,
                "verdict": "discharged" if ok else ("undecided" if status != "ok" else "refuted"),
                "solver": "interval", "time": 0.0, "attempts": [], "after_havoc": True,
                "model": "" if ok else json.dumps({"returns_below_bound": [{"line": ln, "delta_lo": st.lo, "delta_hi": st.hi} for st, ln in bad[:5]]}),
            }],
        })
        if a.v:
            print(("PROVED  " if ok else "FLAGGED ") + name, f"bound={own}", "" if ok else functions[-1]["obligations"][0]["model"][:150])
    # ---- loop progress: every `while` loop of every parser method
    methods, _tables = load_parsers()
    n_loops = n_prog = 0
    for rel, cls, fn, sha, seg in methods:
        if "while " not in seg:
            continue
        for k, w, lo, why in loop_progress(fn):
            n_loops += 1
            if why == "not-a-token-loop":
                continue  # no obligation: the loop consumes no input
            ok = lo is not None and lo >= 1
            n_prog += ok
            name = f"{rel}:{cls}.{fn.name}#loop{k}"
            functions.append({
                "function": name, "props": ["C05"], "sha256": sha, "lineno": w.lineno, "status": "ok", "reason": why, "paths": 1,
                "assumptions": ["loop progress under the sub-parser convention: (P1) a sub-parser returning a falsy value has restored the index, "
                                "(P2) one returning a truthy value consumed at least one token; cursor primitives per their proved contracts"],
                "opaque": [], "inlined": [], "callee_contracts": ["Parser._advance", "Parser._retreat", "Parser._match*"], "gen_s": 0, "projection": True,
                "bound": 1, "delta_lo": None if lo is None else (min(lo, 1) if lo > -10**8 else -10**9),
                "obligations": [{
                    "id": f"{cls}.{fn.name}:loop{k}:progress", "kind": "dec", "line": w.lineno,
                    "text": f"every iteration of `while {ast.unparse(w.test)[:60]}` that loops back has consumed at least one token (no non-progressing iteration)",
                    "verdict": "discharged" if ok else "refuted", "solver": "interval", "time": 0.0, "attempts": [], "after_havoc": True,
                    "model": "" if ok else json.dumps({"min_delta_on_a_looping_path": lo}),
                }],
            })
            if a.v:
                print(("PROGRESS " if ok else "NOPROOF  ") + name, lo)
    res = {"generation_s": round(time.time() - t0, 2), "wall_s": round(time.time() - t0, 2), "functions": functions, "solver_time_s": 0.0,
           "mode": "projection", "weak_methods": {m: b for m, b in bounds.items() if b < 0}}
    if a.out:
        json.dump(res, open(a.out, "w"), indent=1)
    n_ok = sum(f["obligations"][0]["verdict"] == "discharged" for f in functions)
    print(f"projection: {len(functions)} obligations ({n_loops} while loops: {n_prog} proved to make progress); {n_ok} discharged, {len(functions) - n_ok} undecided at this precision")


if __name__ == "__main__":
    main()
