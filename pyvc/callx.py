"""Calls: modular (callee contract), inlined from real source, declared-opaque, builtins."""
import ast
import inspect

import z3

from . import smt, source, contract as C
from .smt import Val, IntS
from .state import SV, Unsupported, sv_int, sv_bool, sv_str, SV_NONE, TypeSpec, fresh_array
from .base import Outcome
from .execu import ann_to_type

PURE_BUILTINS = {"ord", "chr", "len", "isinstance", "bool", "int", "str", "min", "max", "hash", "abs", "any", "all", "tuple", "list", "type", "id", "repr", "sorted", "callable", "set", "dict", "sum", "getattr", "print", "i64", "iter", "next"}


class CallMixin:
    inline_depth = 0

    def e_Call(self, e, st, k):
        txt = ast.unparse(e.func)
        if any(kw.arg is None for kw in e.keywords):
            # `**opts` is forwarded only to declared-opaque callees (which ignore their arguments)
            if txt not in self.con.opaque:
                raise Unsupported("**kwargs call to a non-opaque callee")
            e = ast.Call(func=e.func, args=e.args, keywords=[kw for kw in e.keywords if kw.arg is not None])
        # type(x) handled as a pseudo value
        if isinstance(e.func, ast.Name) and e.func.id == "type" and len(e.args) == 1 and "type" not in st.locals:
            return self.ev(e.args[0], st, lambda s1, v: k(s1, SV(smt.fresh("typeof"), None, ("typeof", v))))
        if isinstance(e.func, ast.Attribute) and ast.unparse(e.func) in ("t.cast", "typing.cast"):
            return self.ev(e.args[1], st, k)
        if isinstance(e.func, ast.Name) and e.func.id == "super" and not e.args:
            cls = getattr(self, "inline_class", None) or self.resolve_class_name(self.ext.class_name)
            return k(st, SV(st.locals["self"].t, None, ("super", st.locals["self"], cls)))
        # generator / comprehension consumers
        if isinstance(e.func, ast.Name) and e.func.id in ("any", "all", "tuple", "list", "set", "sum") and len(e.args) == 1 and isinstance(e.args[0], (ast.GeneratorExp, ast.ListComp)) and e.func.id not in st.locals:
            return self.comprehension(e.func.id, e.args[0], st, e, k)
        if txt in self.con.opaque and any(isinstance(a_, (ast.GeneratorExp, ast.ListComp, ast.DictComp, ast.SetComp)) for a_ in e.args):
            # a comprehension handed to a declared-opaque callee is not evaluated (its element expressions are pure reads)
            self.note(f"comprehension argument of opaque callee {txt} is not evaluated (assumed free of side effects)")
            e = ast.Call(func=e.func, args=[ast.Constant(value=None) if isinstance(a_, (ast.GeneratorExp, ast.ListComp, ast.DictComp, ast.SetComp)) else a_ for a_ in e.args], keywords=e.keywords)
            ast.fix_missing_locations(e)
        star = [a for a in e.args if isinstance(a, ast.Starred)]
        if star and not (len(e.args) == 1):
            raise Unsupported("mixed *args call")
        pos_nodes = [a.value if isinstance(a, ast.Starred) else a for a in e.args]
        kw_names = [kw.arg for kw in e.keywords]

        def with_func(s0, fv):
            def with_args(s1, vs):
                pos = vs[: len(pos_nodes)]
                kws = dict(zip(kw_names, vs[len(pos_nodes) :]))
                return self.dispatch_call(s1, fv, pos, kws, bool(star), e, txt, k)

            return self.ev_list(pos_nodes + [kw.value for kw in e.keywords], s0, with_args)

        if txt in self.con.opaque:
            return with_func(st, SV(smt.fresh("opq"), "func", ("opaque", txt)))
        return self.ev(e.func, st, with_func)

    # ------------------------------------------------------------------ dispatch
    def dispatch_call(self, st, fv, pos, kws, starred, node, txt, k):
        meta = fv.meta
        if txt in self.con.opaque or (meta and meta[0] == "opaque"):
            return self.apply_opaque(st, self.con.opaque[txt], txt, pos, kws, node, k)
        if meta is None:
            raise Unsupported(f"call of unknown function value {txt} (declare it opaque)")
        kind = meta[0]
        if kind == "lambda":
            fn = meta[1]
            closure = meta[2] if meta[2] is not None else dict(getattr(self, "free_env", {}))
            return self.inline_ast(st, fn, pos, kws, starred, closure, node, k, self_sv=None)
        if kind == "builtin":
            return self.builtin_call(st, meta[1], pos, kws, node, k)
        if kind == "bmethod":
            return self.builtin_method(st, meta[1], meta[2], pos, kws, node, k)
        if kind == "class":
            return self.construct(st, meta[1], pos, kws, node, txt, k)
        if kind == "super":
            raise Unsupported("super() used as a callee")
        if kind == "excinit":
            me = meta[1]
            argt = self.new_list(st, [p.t for p in pos], kind=smt.CLS_TUPLE)
            self.store_field(st, me.t, "args", argt)
            return k(st, SV_NONE)
        if kind in ("func", "method"):
            if kind == "method":
                fobj, selfsv = meta[1], meta[2]
                if isinstance(fobj, staticmethod):
                    fobj, selfsv = fobj.__func__, None
                elif isinstance(fobj, classmethod):
                    raise Unsupported("classmethod call")
            else:
                fobj, selfsv = meta[1], meta[2]
            if getattr(fobj, "__name__", "") in ("cast",) and getattr(fobj, "__module__", "") == "typing":
                return k(st, pos[1])
            if getattr(fobj, "__name__", "") == "i64":
                return k(st, pos[0])
            if inspect.isbuiltin(fobj) or not hasattr(fobj, "__code__"):
                name = getattr(fobj, "__name__", "")
                if name in PURE_BUILTINS:
                    return self.builtin_call(st, name, pos, kws, node, k)
                raise Unsupported(f"call of builtin {name}")
            return self.call_real_function(st, fobj, selfsv, pos, kws, starred, node, txt, k)
        raise Unsupported(f"call of {kind}")

    def call_real_function(self, st, fobj, selfsv, pos, kws, starred, node, txt, k):
        fobj = inspect.unwrap(fobj)
        try:
            rel, qn = source.function_source_location(fobj)
        except source.ExtractionError as ex:
            raise Unsupported(str(ex))
        con2 = C.lookup(rel, qn)
        allpos = ([selfsv] if selfsv is not None else []) + list(pos)
        if con2 is not None and not (rel == self.ext.relpath and qn == self.ext.qualname and False):
            ext2 = source.find_function(rel, qn)
            return self.apply_contract(st, con2, ext2, allpos, kws, node, k)
        short = qn.split(".")[-1]
        if any(p in (txt, qn, short) for p in self.con.inline) or (rel, qn) in DEFAULT_INLINE:
            ext2 = source.find_function(rel, qn)
            if ext2.node.decorator_list and not all(_harmless_decorator(d) for d in ext2.node.decorator_list):
                raise Unsupported(f"inlining decorated function {qn}")
            self.inlined.add(f"{rel}:{qn}@{ext2.sha256[:12]}")
            return self.inline_ast(st, ext2.node, allpos, kws, starred, {}, node, k, self_sv=None, module_rel=rel)
        raise Unsupported(f"call to {qn} ({rel}) has no contract and is not declared inline/opaque")

    def call_property(self, st, prop, base, cls, attr, node, k):
        fobj = prop.fget
        try:
            rel, qn = source.function_source_location(fobj)
        except source.ExtractionError as ex:
            raise Unsupported(str(ex))
        con2 = C.lookup(rel, qn)
        if con2 is not None:
            return self.apply_contract(st, con2, source.find_function(rel, qn), [base], {}, node, k)
        if any(p in (attr, qn, "." + attr) for p in self.con.inline) or (rel, qn) in DEFAULT_INLINE:
            ext2 = source.find_function(rel, qn)
            self.inlined.add(f"{rel}:{qn}@{ext2.sha256[:12]}")
            return self.inline_ast(st, ext2.node, [base], {}, False, {}, node, k, self_sv=None, module_rel=rel)
        key = "." + attr
        if key in self.con.opaque:
            return self.apply_opaque(st, self.con.opaque[key], key, [base], {}, node, k)
        raise Unsupported(f"property {qn} has no contract and is not declared inline/opaque")

    # ------------------------------------------------------------------ inlining
    def bind_params(self, fn, pos, kws, starred, st, closure):
        args = fn.args
        formal = [a.arg for a in args.posonlyargs + args.args]
        env = dict(closure)
        defaults = list(args.defaults)
        dmap = dict(zip(formal[len(formal) - len(defaults) :], defaults))
        if starred:
            if not (args.vararg and not formal):
                raise Unsupported("*args passed to a function without matching *param")
            env[args.vararg.arg] = pos[0]
            pos = []
        if len(pos) > len(formal):
            if not args.vararg:
                raise Unsupported("too many positional args")
            extra = pos[len(formal) :]
            pos = pos[: len(formal)]
            ref = self.new_list(st, [x.t for x in extra], kind=smt.CLS_TUPLE)
            env[args.vararg.arg] = SV(ref, "list")
        elif args.vararg and not starred:
            ref = self.new_list(st, [], kind=smt.CLS_TUPLE)
            env[args.vararg.arg] = SV(ref, "list")
        for name, v in zip(formal, pos):
            env[name] = v
        kwonly = {a.arg: d for a, d in zip(args.kwonlyargs, args.kw_defaults)}
        for name, v in kws.items():
            if name not in formal and name not in kwonly:
                raise Unsupported(f"unexpected keyword {name}")
            env[name] = v
        for name in formal[len(pos) :]:
            if name not in env or (name in closure and name not in kws and name in dmap):
                if name in kws:
                    continue
                if name not in dmap:
                    if name in env and name not in closure:
                        continue
                    raise Unsupported(f"missing argument {name}")
                env[name] = self.default_value(dmap[name])
        for name, d in kwonly.items():
            if name not in kws:
                if d is None:
                    raise Unsupported(f"missing kw-only {name}")
                env[name] = self.default_value(d)
        return env

    def default_value(self, node):
        if isinstance(node, ast.Constant):
            return self.const_sv(node.value)
        if isinstance(node, (ast.Name, ast.Attribute)):
            try:
                return self.static_eval(node)
            except Exception:
                pass
        raise Unsupported("non-constant default " + ast.unparse(node))

    def inline_ast(self, st, fn, pos, kws, starred, closure, node, k, self_sv=None, module_rel=None):
        if self.inline_depth > 8:
            raise Unsupported("inline depth")
        env = self.bind_params(fn, pos, kws, starred, st, closure)
        saved = st.locals
        saved_ext = self.ext
        st.locals = env
        if module_rel is not None and module_rel != self.ext.relpath:
            # names inside the inlined body resolve in its own module
            self.ext = _ExtView(self.ext, module_rel)
        self.inline_depth += 1
        try:
            if isinstance(fn, ast.Lambda):
                outs = self.ev(fn.body, st, lambda s1, v: [Outcome("return", s1, v)])
            else:
                outs = self.exec_block(fn.body, st)
        finally:
            self.inline_depth -= 1
            self.ext = saved_ext
        res = []
        for o in outs:
            if o.kind == "stop":
                res.append(o)
                continue
            o.st.locals = dict(saved) if len(outs) > 1 else saved
            if o.kind == "return":
                res += k(o.st, o.val)
            elif o.kind == "next":
                res += k(o.st, SV_NONE)
            elif o.kind == "raise":
                res.append(o)
            else:
                raise Unsupported("break/continue escaping inlined function")
        return res

    # ------------------------------------------------------------------ contracts at call sites
    def apply_contract(self, st, con2, ext2, pos, kws, node, k):
        fn = ext2.node
        env = self.bind_params(fn, pos, kws, False, st, {})
        self.used_contracts.add(f"{con2.relpath}:{con2.qualname}")
        # static hints for formals from the callee's own annotations
        pre = st
        for r in con2.requires:
            g = self.spec_bool(r, pre, env, old=pre, extra={"$old_names": env})
            self.oblige(pre, g, "pre", node, f"{con2.qualname} requires {r}")
        old = pre.copy()
        post = pre
        self.apply_modifies(post, con2.modifies, env, old)
        for lname, lty in con2.ghost.get("post_locals", {}).items():
            lv = smt.fresh("ghostlocal")
            env[lname] = self.typed(post, lv, lty)
            a2 = smt.fresh("alloc", IntS)
            post.assume(a2 >= post.alloc, z3.Implies(smt.is_ref(lv), Val.r(lv) < a2))
            post.alloc = a2
        rty = ann_to_type(fn.returns)
        res_t = smt.fresh("ret")
        outs = []
        # exceptional exits
        for cname, clauses in con2.raises.items():
            es = post.copy()
            cls = self.resolve_class_name(cname)
            ex = smt.fresh("exc", IntS)
            es.assume(ex >= es.alloc, self.classes.isa(cls, smt.CLS[ex]))
            es.alloc = ex + 1
            exc = SV(smt.mk_ref(ex), "obj:" + cname)
            for cl in clauses:
                es.assume(self.spec_bool(cl, es, env, old=old, extra={"exc": exc, "$old_names": env}))
            if self.feasible(es):
                outs.append(Outcome("raise", es, exc))
        res = self.typed(post, res_t, rty if rty != "any" else None)
        post.assume(z3.Implies(smt.is_ref(res_t), Val.r(res_t) < post.alloc + 0)) if False else None
        for cl in con2.ensures:
            post.assume(self.spec_bool(cl, post, env, old=old, extra={"result": res, "$old_names": env}))
        if self.feasible(post):
            outs += k(post, res)
        return outs

    def apply_modifies(self, st, modifies, env, old):
        if modifies is None or "*" in modifies:
            if self.con.modifies is not None and "*" not in self.con.modifies:
                self.oblige(st, z3.BoolVal(False), "frame", None, "callee with an unconstrained frame called from a function with a modifies clause")
            self.havoc_all(st)
            return
        for m in modifies:
            if m == "fresh":
                a = smt.fresh("alloc", IntS)
                st.assume(a >= st.alloc)
                st.alloc = a
                continue
            if m.startswith("*."):
                f = m[2:]
                self.check_write_all(st, f)
                st.setH(f, fresh_array(f))
                self.written.add(f)
                continue
            if m.endswith("[]") or m.endswith("{}"):
                target = self.spec_val(m[:-2], old, env, old=old, extra={"$old_names": env})
                r = Val.r(target.t)
                fields = ("$items", "$len") if m.endswith("[]") else ("$dhas", "$dval", "$len")
                self.check_write(st, r, fields[0])
                for f in fields:
                    arr = st.H(f)
                    st.setH(f, z3.Store(arr, r, smt.fresh("hv." + f.strip("$"), arr.sort().range())))
                    self.written.add(f)
                continue
            objsrc, f = m.rsplit(".", 1)
            target = self.spec_val(objsrc, old, env, old=old, extra={"$old_names": env})
            self.store_field(st, target.t, f, smt.fresh("hv." + f))
        st.havocked = True

    # ------------------------------------------------------------------ opaque callees
    def apply_opaque(self, st, spec, txt, pos, kws, node, k):
        """Declared-opaque callee: havoc the declared set, return a value of the declared type, or raise one of
        the declared classes.  Optional `ensures` clauses are ASSUMED (listed)."""
        self.opaque_used.add(txt)
        havoc = spec.get("havoc", [])
        outs = []
        env = {f"a{i}": v for i, v in enumerate(pos)}
        env.update(kws)
        old = st.copy()
        base = st
        if havoc:
            self.apply_modifies(base, havoc, dict(st.locals, **env), old)
        for cname in spec.get("raises", []):
            es = base.copy()
            cls = self.resolve_class_name(cname)
            ex = smt.fresh("exc", IntS)
            es.assume(ex >= es.alloc, self.classes.isa(cls, smt.CLS[ex]))
            es.alloc = ex + 1
            excsv = SV(smt.mk_ref(ex), "obj:" + cname)
            for cl in spec.get("ensures_exc", []):
                es.assume(self.spec_bool(cl, es, dict(es.locals, **env), old=old, extra={"exc": excsv}))
                self.note(f"ASSUMED on exceptional exit of opaque callee {txt}: {cl}")
            outs.append(Outcome("raise", es, excsv))
        if spec.get("counter"):
            g = "ghost_" + spec["counter"]
            base.locals[g] = sv_int(Val.i(base.locals[g].t) + 1)
        if spec.get("noreturn"):
            return outs
        ret = spec.get("returns", "any")
        if spec.get("pure"):
            ufname = ("spec_" + spec["uf"]) if spec.get("uf") else "opq_" + "".join(ch if ch.isalnum() else "_" for ch in txt)
            if spec.get("uf") and spec["uf"] in C.UNINTERPRETED and C.UNINTERPRETED[spec["uf"]][0] != len(pos):
                ufname += f"_{len(pos)}"  # same callee with another number of arguments: a separate function
            f = self.get_uf(ufname, [Val] * len(pos), Val)
            rt = f(*[p.t for p in pos])
            self.note(f"opaque callee {txt} treated as a deterministic function of its arguments")
        else:
            rt = smt.fresh("opqret")
        if isinstance(ret, str) and ret.startswith("fresh:"):
            cls = self.resolve_class_name(ret[6:])
            r = smt.fresh("newobj", IntS)
            base.assume(r >= base.alloc, self.classes.isa(cls, smt.CLS[r]))
            base.alloc = r + 1
            res = SV(smt.mk_ref(r), "obj:" + ret[6:])
        elif isinstance(ret, str) and ret.startswith("tuple:"):
            parts = [p.strip() for p in ret[6:].split(",")]
            items = [self.typed(base, smt.fresh("opqret"), p if p != "any" else None) for p in parts]
            res = SV(smt.mk_tuple([i.t for i in items]), "tuple", ("tuple", items))
        else:
            res = self.typed(base, rt, ret if ret != "any" else None)
            base.assume(z3.Implies(smt.is_ref(rt), Val.r(rt) < base.alloc))
        for cl in spec.get("ensures", []):
            base.assume(self.spec_bool(cl, base, dict(base.locals, **env), old=old, extra={"result": res}))
            self.note(f"ASSUMED postcondition of opaque callee {txt}: {cl}")
        outs += k(base, res)
        return outs

    # ------------------------------------------------------------------ constructors
    def construct(self, st, cls, pos, kws, node, txt, k):
        if cls is bool:
            return k(st, sv_bool(self.truthy(st, pos[0])) if pos else sv_bool(False))
        if cls is int or cls.__name__ in ("i64", "i32"):
            if pos and pos[0].ty in ("int", "bool"):
                return k(st, sv_int(smt.N(pos[0])))
            raise Unsupported("int() of non-int")
        if cls is str:
            if not pos:
                return k(st, sv_str(""))
            return k(st, SV(smt.mk_str(self.str_of(st, pos[0])), "str"))
        if cls is list and not pos:
            return k(st, SV(self.new_list(st, []), "list"))
        if cls is dict and not pos:
            return k(st, SV(self.new_dict(st), "dict"))
        if cls is dict and len(pos) == 1 and not kws and self.narrow(st, pos[0]).ty == "dict":
            ref = self.new_dict(st)  # dict(d): a fresh dict with d's keys and values
            self.dict_merge_into(st, Val.r(ref), Val.r(pos[0].t))
            return k(st, SV(ref, "dict"))
        if cls is set and not pos:
            return k(st, SV(self.new_dict(st, kind=smt.CLS_SET), "set"))
        if cls in (list, tuple) and len(pos) == 1:
            v = pos[0]
            if v.meta and v.meta[0] == "tuple":
                if cls is tuple:
                    return k(st, v)
                return k(st, SV(self.new_list(st, [x.t for x in v.meta[1]]), "list"))
            if v.ty in ("list", "tuple"):
                n = self.list_len(st, v.t)
                ref = self.list_slice_copy(st, v.t, z3.IntVal(0), n, kind=smt.CLS_LIST if cls is list else smt.CLS_TUPLE)
                return k(st, SV(ref, "list", v.meta if v.meta and v.meta[0] == "elemtype" else None))
            if v.ty is None and smt.is_ref is not None:
                # statically unknown argument: copying is modelled for lists / tuples only, so that it IS one on this path
                # (e.g. under `type(v) is list`) becomes an obligation
                is_seq = z3.And(smt.is_ref(v.t), z3.Or(smt.CLS[Val.r(v.t)] == smt.CLS_LIST, smt.CLS[Val.r(v.t)] == smt.CLS_TUPLE))
                self.oblige(st, is_seq, "type", node, f"argument of {cls.__name__}() is a list or a tuple object on this path")
                st.assume(is_seq)
                n = self.list_len(st, v.t)
                ref = self.list_slice_copy(st, v.t, z3.IntVal(0), n, kind=smt.CLS_LIST if cls is list else smt.CLS_TUPLE)
                return k(st, SV(ref, "list"))
            raise Unsupported("list()/tuple() of unknown iterable")
        if isinstance(cls, type) and issubclass(cls, BaseException) and cls.__name__ not in self.con.opaque:
            self.classes.register(cls)
            self.classes.by_name.setdefault(cls.__name__, cls)
            ref = self.new_ref(st, cls=cls)
            me = SV(ref, "obj:" + cls.__name__)
            init = cls.__init__
            if hasattr(init, "__code__"):
                rel, qn = source.function_source_location(init)
                ext2 = source.find_function(rel, qn)
                self.inlined.add(f"{rel}:{qn}@{ext2.sha256[:12]}")
                saved_cls = getattr(self, "inline_class", None)
                self.inline_class = [c for c in cls.__mro__ if "__init__" in vars(c)][0]
                try:
                    return self.inline_ast(st, ext2.node, [me] + list(pos), kws, False, {}, node, lambda s1, _v: k(s1, me), module_rel=rel)
                finally:
                    self.inline_class = saved_cls
            if kws:
                raise Unsupported("keywords to builtin exception")
            argt = self.new_list(st, [p.t for p in pos], kind=smt.CLS_TUPLE)
            self.store_field(st, ref, "args", argt)
            return k(st, me)
        name = cls.__name__
        if name in self.con.opaque:
            return self.apply_opaque(st, self.con.opaque[name], name, pos, kws, node, k)
        if name in self.con.inline or (name + ".__init__") in self.con.inline:
            init = cls.__init__
            rel, qn = source.function_source_location(init)
            ext2 = source.find_function(rel, qn)
            self.classes.register(cls)
            ref = self.new_ref(st, cls=cls)
            me = SV(ref, "obj:" + name)
            self.inlined.add(f"{rel}:{qn}@{ext2.sha256[:12]}")
            return self.inline_ast(st, ext2.node, [me] + list(pos), kws, False, {}, node, lambda s1, _v: k(s1, me), module_rel=rel)
        raise Unsupported(f"constructor {name} (declare opaque or inline)")

    def check_exc_init(self, cls, kws):
        """keyword -> same-named field: verified against the real __init__ source once."""
        key = ("excinit", cls)
        if key in self.uf:
            return
        self.uf[key] = True
        try:
            src = inspect.getsource(cls.__init__)
        except (OSError, TypeError):
            return
        for name in kws:
            if f"self.{name} = {name}" not in src and f"self.{name}: " not in src:
                raise Unsupported(f"{cls.__name__}.__init__ does not store keyword {name} in a same-named field")

    # ------------------------------------------------------------------ comprehensions
    def comprehension(self, consumer, comp, st, node, k):
        if len(comp.generators) != 1 or comp.generators[0].is_async:
            raise Unsupported("nested comprehension")
        gen = comp.generators[0]

        def with_iter(s1, it):
            plan = self.iter_plan(s1, it, node)
            tgt = gen.target
            self.note("comprehension bodies are evaluated in pure mode (exceptions inside an element expression are not modelled)")

            def bind(env, el):
                if isinstance(tgt, ast.Name):
                    env[tgt.id] = el
                elif isinstance(tgt, ast.Tuple) and el.meta and el.meta[0] == "tuple":
                    for n_, x in zip(tgt.elts, el.meta[1]):
                        env[n_.id] = x
                else:
                    raise Unsupported("comprehension target")

            def elem_cond(el):
                env = {}
                bind(env, el)
                cs = [self.spec_bool(c, s1, dict(s1.locals, **env), old=self.entry) for c in gen.ifs]
                return z3.And(*cs) if cs else z3.BoolVal(True), env

            if plan[0] == "static":
                items = plan[1]
                if consumer in ("any", "all"):
                    ts = []
                    for el in items:
                        c, env = elem_cond(el)
                        b = self.spec_bool(comp.elt, s1, dict(s1.locals, **env), old=self.entry)
                        ts.append(z3.And(c, b) if consumer == "any" else z3.Implies(c, b))
                    r = (z3.Or(*ts) if consumer == "any" else z3.And(*ts)) if ts else z3.BoolVal(consumer == "all")
                    return k(s1, sv_bool(r))
                raise Unsupported("static comprehension into a collection")
            _, seq, start, elemfn = plan
            n = self.list_len(s1, seq.t) - start
            j = z3.Int(f"j!cmp{self._qid()}")
            el = elemfn(s1, z3.simplify(start + j))
            c, env = elem_cond(el)
            if consumer in ("any", "all"):
                b = self.spec_bool(comp.elt, s1, dict(s1.locals, **env), old=self.entry)
                rng = z3.And(j >= 0, j < n)
                r = z3.Exists([j], z3.And(rng, c, b)) if consumer == "any" else z3.ForAll([j], z3.Implies(z3.And(rng, c), b))
                return k(s1, sv_bool(r))
            if consumer in ("tuple", "list"):
                val = self.spec_val(comp.elt, s1, dict(s1.locals, **env), old=self.entry)
                ref = self.new_ref(s1, cls_id=smt.CLS_LIST if consumer == "list" else smt.CLS_TUPLE)
                arr = smt.fresh("comp", z3.ArraySort(IntS, Val))
                if not gen.ifs:
                    s1.assume(z3.ForAll([j], z3.Implies(z3.And(j >= 0, j < n), arr[j] == val.t), patterns=[arr[j]]))
                    self.set_list(s1, ref, arr, z3.If(n > 0, n, z3.IntVal(0)), fresh=True)
                else:
                    # filter: strictly increasing index map idx:[0,m)->[0,n) onto exactly the elements satisfying c
                    m = smt.fresh("flen", IntS)
                    idx = smt.fresh("fidx", z3.ArraySort(IntS, IntS))
                    pos_ = smt.fresh("fpos", z3.ArraySort(IntS, IntS))
                    i, i2 = z3.Int(f"i!f{self._qid()}"), z3.Int(f"i2!f{self._qid()}")
                    s1.assume(m >= 0, m <= z3.If(n > 0, n, 0))
                    s1.assume(z3.ForAll([i], z3.Implies(z3.And(i >= 0, i < m), z3.And(idx[i] >= 0, idx[i] < n, pos_[idx[i]] == i)), patterns=[idx[i]]))
                    s1.assume(z3.ForAll([i, i2], z3.Implies(z3.And(i >= 0, i < i2, i2 < m), idx[i] < idx[i2]), patterns=[z3.MultiPattern(idx[i], idx[i2])]))
                    el_i = elemfn(s1, z3.simplify(start + idx[i]))
                    c_i, env_i = elem_cond(el_i)
                    val_i = self.spec_val(comp.elt, s1, dict(s1.locals, **env_i), old=self.entry)
                    s1.assume(z3.ForAll([i], z3.Implies(z3.And(i >= 0, i < m), z3.And(c_i, arr[i] == val_i.t)), patterns=[arr[i], idx[i]]))
                    s1.assume(z3.ForAll([j], z3.Implies(z3.And(j >= 0, j < n, c), z3.And(pos_[j] >= 0, pos_[j] < m, idx[pos_[j]] == j)), patterns=[pos_[j], el.t]))
                    self.set_list(s1, ref, arr, m, fresh=True)
                    s1.locals["$filter_src_len"] = sv_int(n)
                return k(s1, SV(ref, "list"))
            raise Unsupported(f"comprehension consumer {consumer}")

        return self.ev_iter(gen.iter, st, with_iter)

    def e_DictComp(self, e, st, k):
        """{k: v for ... in src}: abstracted as a deterministic function of the iterated container (a canonical
        dict object per source value and havoc epoch); element expressions are not modelled."""
        if len(e.generators) != 1:
            raise Unsupported("nested dict comprehension")
        gen = e.generators[0]
        src = gen.iter
        if isinstance(src, ast.Call) and isinstance(src.func, ast.Attribute) and src.func.attr in ("items", "values", "keys") and not src.args:
            src = src.func.value
        n = sum(1 for x in ast.walk(self.ext.node) if isinstance(x, ast.DictComp) and (x.lineno, x.col_offset) < (e.lineno, e.col_offset))
        self.note("dict comprehension abstracted as an uninterpreted function of its source container (contents not modelled)")

        def done(s1, v):
            f = self.get_uf(f"spec_dictcomp{n}", [Val], Val)
            r = f(v.t)
            s1.assume(smt.is_ref(r), smt.CLS[Val.r(r)] == smt.CLS_DICT)
            return k(s1, SV(r, "dict"))

        return self.ev(src, st, done)

    def e_ListComp(self, e, st, k):
        return self.comprehension("list", e, st, e, k)

    # ------------------------------------------------------------------ builtins
    def builtin_call(self, st, name, pos, kws, node, k):
        if name == "len":
            v = self.narrow(st, pos[0])
            if v.meta and v.meta[0] == "tuple":
                return k(st, sv_int(len(v.meta[1])))
            if v.meta and v.meta[0] == "pyconst" and hasattr(v.meta[1], "__len__"):
                return k(st, sv_int(len(v.meta[1])))
            if v.ty == "str":
                return k(st, sv_int(z3.Length(Val.s(v.t))))
            if v.ty in ("list", "dict", "set", "tuple"):
                return k(st, sv_int(self.list_len(st, v.t)))
            if v.ty is None:
                sized = z3.And(smt.is_ref(v.t), z3.Or(*[smt.CLS[Val.r(v.t)] == c for c in (smt.CLS_LIST, smt.CLS_DICT, smt.CLS_SET, smt.CLS_TUPLE)]))
                return self.branch(
                    st,
                    sized,
                    lambda s1: k(s1, sv_int(self.list_len(s1, v.t))),
                    lambda s2: self.branch(s2, smt.is_str(v.t), lambda s3: k(s3, sv_int(z3.Length(Val.s(v.t)))), lambda s4: self.raise_builtin(s4, "TypeError", node)),
                )
            raise Unsupported("len of " + str(v.ty))
        if name == "isinstance" and pos[1].meta and pos[1].meta[0] == "typeof":
            # isinstance(x, type(y)): the class of x is a (non-strict) subclass of the class of y
            x, y = pos[0].t, pos[1].meta[1].t
            f = self.get_uf("subclass_of", [IntS, IntS], z3.BoolSort())
            c = z3.Int("c!sub")
            ax = z3.ForAll([c], f(c, c))
            if not any(a.eq(ax) for a in self.global_axioms):
                self.global_axioms.append(ax)
            self.note("isinstance(x, type(y)) modelled with an uninterpreted reflexive subclass relation on class ids (proper subclasses exist in the loaded class hierarchy)")
            return k(st, sv_bool(z3.And(smt.is_ref(x), smt.is_ref(y), f(smt.CLS[Val.r(x)], smt.CLS[Val.r(y)]))))
        if name == "isinstance":
            try:
                classes = self.classes_of(pos[1])
            except Unsupported:
                # the class (tuple) is a run-time value, e.g. a class-level table a subclass may override.  Only for the
                # attributes the contract lists (ghost dynamic_isinstance) is the answer modelled, as an unknown but
                # deterministic predicate of (class of x, that value), never true for a non-object: the contract then
                # has to hold for both answers.  Anything else stays unsupported (-> undecided).
                a1 = node.args[1] if isinstance(node, ast.Call) and len(node.args) > 1 else None
                if not (isinstance(a1, ast.Attribute) and a1.attr in self.con.ghost.get("dynamic_isinstance", ())):
                    raise
                f = self.get_uf("isinstance_dyn", [IntS, Val], z3.BoolSort())
                x = pos[0].t
                self.note("isinstance(x, <run-time class tuple>) modelled as an uninterpreted predicate of the class of x and the tuple value")
                return k(st, sv_bool(z3.And(smt.is_ref(x), f(smt.CLS[Val.r(x)], pos[1].t))))
            return k(st, sv_bool(self.isinstance_term(st, pos[0], classes)))
        if name == "bool":
            return k(st, sv_bool(self.truthy(st, pos[0])) if pos else sv_bool(False))
        if name in ("int", "i64"):
            if pos[0].ty in ("int", "bool"):
                return k(st, sv_int(smt.N(pos[0])))
            raise Unsupported("int() of non-int")
        if name in ("str", "repr"):
            return k(st, SV(smt.mk_str(self.str_of(st, pos[0])), "str"))
        if name in ("min", "max") and len(pos) == 2:
            a, b = pos
            if a.ty in ("int", "bool") and b.ty in ("int", "bool"):
                x, y = smt.N(a), smt.N(b)
                return k(st, sv_int(z3.If((x <= y) if name == "min" else (x >= y), x, y)))
            raise Unsupported("min/max of non-ints")
        if name == "abs" and pos[0].ty in ("int", "bool"):
            x = smt.N(pos[0])
            return k(st, sv_int(z3.If(x >= 0, x, -x)))
        if name == "hash":
            f = self.get_uf("hashf", [Val, IntS], IntS)
            return k(st, sv_int(f(pos[0].t, getattr(st, "heap_epoch", z3.IntVal(0)))))
        if name == "id":
            return k(st, sv_int(Val.r(pos[0].t)))
        if name == "print":
            return k(st, SV_NONE)
        if name == "ord" and len(pos) == 1:
            f = self.get_uf("py_ord", [Val], IntS)
            return k(st, sv_int(f(pos[0].t)))
        if name == "chr" and len(pos) == 1:
            f = self.get_uf("py_chr", [Val], smt.StrS)
            return k(st, SV(smt.mk_str(f(pos[0].t)), "str"))
        if name in ("tuple", "list") :
            return self.construct(st, tuple if name == "tuple" else list, pos, kws, node, name, k)
        if name == "sorted":
            return self.sorted_call(st, pos, kws, node, k)
        raise Unsupported(f"builtin {name}")

    def classes_of(self, sv):
        if sv.meta and sv.meta[0] == "class":
            return [sv.meta[1]]
        if sv.meta and sv.meta[0] == "tuple":
            out = []
            for x in sv.meta[1]:
                out += self.classes_of(x)
            return out
        raise Unsupported("isinstance with non-static class")

    def sorted_call(self, st, pos, kws, node, k):
        raise Unsupported("sorted()")

    # ------------------------------------------------------------------ builtin methods
    def builtin_method(self, st, base, m, pos, kws, node, k):
        ty = base.ty
        if ty == "unknown-container":
            r = Val.r(base.t)
            self.check_write(st, r, "$items", node, "mutation of a container of unknown kind is allowed by modifies")
            self.check_write(st, r, "$dhas", node, "mutation of a container of unknown kind is allowed by modifies")
            for f in ("$items", "$len", "$dhas", "$dval"):
                arr = st.H(f)
                st.setH(f, z3.Store(arr, r, smt.fresh("hv." + f.strip("$"), arr.sort().range())))
                self.written.add(f)
            self.note("mutator call on a container of statically unknown kind: contents havocked, result unknown")
            return k(st, SV(smt.fresh("mutret")))
        if ty == "str":
            s = Val.s(base.t)
            if m in ("upper", "lower", "strip", "lstrip", "rstrip", "casefold", "title") and not pos:
                f = self.get_uf("str_" + m, [smt.StrS], smt.StrS)
                return k(st, SV(smt.mk_str(f(s)), "str"))
            if m == "translate" and len(pos) == 1:
                f = self.get_uf("str_translate", [smt.StrS, Val], smt.StrS)
                return k(st, SV(smt.mk_str(f(s, pos[0].t)), "str"))
            if m == "startswith" and pos[0].ty == "str" and len(pos) == 1:
                return k(st, sv_bool(z3.PrefixOf(Val.s(pos[0].t), s)))
            if m == "endswith" and pos[0].ty == "str" and len(pos) == 1:
                return k(st, sv_bool(z3.SuffixOf(Val.s(pos[0].t), s)))
            if m in ("isdigit", "isalnum", "isspace", "isidentifier", "isalpha", "isupper", "islower"):
                f = self.get_uf("str_" + m, [smt.StrS], z3.BoolSort())
                return k(st, sv_bool(f(s)))
            if m == "join" and len(pos) == 1:
                v = pos[0]
                if v.ty in ("list", "tuple") and not (v.meta and v.meta[0] == "tuple"):
                    f = self.get_uf("str_join", [smt.StrS, z3.ArraySort(IntS, Val), IntS], smt.StrS)
                    return k(st, SV(smt.mk_str(f(s, self.list_items(st, v.t), self.list_len(st, v.t))), "str"))
            if m == "replace" and len(pos) == 2:
                f = self.get_uf("str_replace", [smt.StrS, smt.StrS, smt.StrS], smt.StrS)
                return k(st, SV(smt.mk_str(f(s, Val.s(pos[0].t), Val.s(pos[1].t))), "str"))
            if m == "find" and len(pos) == 1:
                return k(st, sv_int(z3.IndexOf(s, Val.s(pos[0].t), 0)))
            if m == "count" and len(pos) == 1:
                f = self.get_uf("str_count", [smt.StrS, smt.StrS], IntS)
                r = f(s, Val.s(pos[0].t))
                st.assume(r >= 0)
                return k(st, sv_int(r))
            raise Unsupported(f"str.{m}")
        if ty == "list":
            n = self.name_int(st, self.list_len(st, base.t), "len")
            items = self.list_items(st, base.t)
            if m == "append":
                self.set_list(st, base.t, z3.Store(items, n, pos[0].t), n + 1)
                return k(st, SV_NONE)
            if m == "clear":
                self.set_list(st, base.t, items, z3.IntVal(0))
                return k(st, SV_NONE)
            if m == "pop":
                if pos:
                    i0 = smt.N(pos[0])
                    i = self.name_int(st, z3.If(i0 < 0, i0 + n, i0), "idx")
                else:
                    i = n - 1
                ok = z3.And(i >= 0, i < n)

                def do(s1):
                    et = base.meta[1] if base.meta and base.meta[0] == "elemtype" else None
                    ret = self.list_get(s1, base.t, i, et)
                    arr = smt.fresh("pop", z3.ArraySort(IntS, Val))
                    j = z3.Int(f"j!pop{self._qid()}")
                    s1.assume(z3.ForAll([j], z3.Implies(z3.And(j >= 0, j < i), arr[j] == items[j]), patterns=[arr[j]]))
                    s1.assume(z3.ForAll([j], z3.Implies(z3.And(j >= i, j < n - 1), arr[j] == items[j + 1]), patterns=[arr[j]]))
                    s1.assume(z3.ForAll([j], z3.Implies(z3.And(j > i, j < n), arr[j - 1] == items[j]), patterns=[items[j]]))
                    self.set_list(s1, base.t, arr, n - 1)
                    return k(s1, ret)

                return self.branch(st, ok, do, lambda s2: self.raise_builtin(s2, "IndexError", node))
            if m == "insert":
                i0 = smt.N(pos[0])
                i1 = z3.If(i0 < 0, i0 + n, i0)
                i = self.name_int(st, z3.If(i1 < 0, z3.IntVal(0), z3.If(i1 > n, n, i1)), "idx")
                arr = smt.fresh("ins", z3.ArraySort(IntS, Val))
                j = z3.Int(f"j!ins{self._qid()}")
                st.assume(z3.ForAll([j], z3.Implies(z3.And(j >= 0, j < i), arr[j] == items[j]), patterns=[arr[j]]))
                st.assume(arr[i] == pos[1].t)
                st.assume(z3.ForAll([j], z3.Implies(z3.And(j >= i, j < n), arr[j + 1] == items[j]), patterns=[items[j]]))
                st.assume(z3.ForAll([j], z3.Implies(z3.And(j > i, j <= n), arr[j] == items[j - 1]), patterns=[arr[j]]))
                self.set_list(st, base.t, arr, n + 1)
                return k(st, SV_NONE)
            if m == "extend":
                v = pos[0]
                if v.ty not in ("list", "tuple") or (v.meta and v.meta[0] == "tuple"):
                    if v.ty is None:
                        is_l = z3.And(smt.is_ref(v.t), z3.Or(smt.CLS[Val.r(v.t)] == smt.CLS_LIST, smt.CLS[Val.r(v.t)] == smt.CLS_TUPLE))
                        return self.branch(st, is_l, lambda s1: self.builtin_method(s1, base, m, [SV(v.t, "list")], kws, node, k), lambda s2: self.raise_unmodelled(s2, node, "extend with non-list"))
                    raise Unsupported("extend with non-list")
                mlen = self.list_len(st, v.t)
                vi = self.list_items(st, v.t)
                arr = smt.fresh("ext", z3.ArraySort(IntS, Val))
                j = z3.Int(f"j!ext{self._qid()}")
                st.assume(z3.ForAll([j], z3.Implies(z3.And(j >= 0, j < n), arr[j] == items[j]), patterns=[arr[j]]))
                st.assume(z3.ForAll([j], z3.Implies(z3.And(j >= 0, j < mlen), arr[n + j] == vi[j]), patterns=[vi[j]]))
                self.set_list(st, base.t, arr, n + mlen)
                return k(st, SV_NONE)
            if m == "copy":
                ref = self.list_slice_copy(st, base.t, z3.IntVal(0), n)
                return k(st, SV(ref, "list", base.meta))
            raise Unsupported(f"list.{m}")
        if ty in ("dict", "set"):
            if m == "get":
                key = pos[0]
                d = pos[1] if len(pos) > 1 else SV_NONE
                has = self.dict_has(st, base.t, key.t)
                return self.branch(st, has, lambda s1: k(s1, self.dict_value_sv(s1, base, key)), lambda s2: k(s2, d))
            if m == "pop" and ty == "dict":
                key = pos[0]
                has = self.dict_has(st, base.t, key.t)

                def hit(s1):
                    v = self.dict_value_sv(s1, base, key)
                    self.dict_del(s1, base.t, key.t)
                    return k(s1, v)

                def miss(s2):
                    if len(pos) > 1:
                        return k(s2, pos[1])
                    return self.raise_builtin(s2, "KeyError", node)

                return self.branch(st, has, hit, miss)
            if m == "setdefault":
                key, d = pos[0], (pos[1] if len(pos) > 1 else SV_NONE)
                has = self.dict_has(st, base.t, key.t)

                def miss(s2):
                    self.dict_store(s2, base.t, key.t, d.t)
                    return k(s2, d)

                return self.branch(st, has, lambda s1: k(s1, self.dict_value_sv(s1, base, key)), miss)
            if m == "add":
                self.dict_store(st, base.t, pos[0].t, None)
                return k(st, SV_NONE)
            if m == "discard":
                self.dict_del(st, base.t, pos[0].t)
                return k(st, SV_NONE)
            if m == "remove":
                has = self.dict_has(st, base.t, pos[0].t)

                def hit(s1):
                    self.dict_del(s1, base.t, pos[0].t)
                    return k(s1, SV_NONE)

                return self.branch(st, has, hit, lambda s2: self.raise_builtin(s2, "KeyError", node))
            if m == "update" and ty == "dict" and len(pos) == 1 and not kws:
                src = self.narrow(st, pos[0])
                if src.ty != "dict":
                    raise Unsupported("dict.update with a non-dict argument")
                self.check_write(st, Val.r(base.t), "$dhas", node, "write to dict/set contents is allowed by modifies")
                self.dict_merge_into(st, Val.r(base.t), Val.r(src.t))
                return k(st, SV_NONE)
            if m == "copy" and ty == "dict":
                ref = self.new_dict(st)
                self.dict_merge_into(st, Val.r(ref), Val.r(base.t))
                return k(st, SV(ref, "dict"))
            if m == "clear":
                r = Val.r(base.t)
                st.setH("$dhas", z3.Store(st.H("$dhas"), r, z3.K(Val, z3.BoolVal(False))))
                st.setH("$len", z3.Store(st.H("$len"), r, z3.IntVal(0)))
                self.written.update(("$dhas", "$len"))
                return k(st, SV_NONE)
            raise Unsupported(f"{ty}.{m}")
        raise Unsupported(f"method {m} on {ty}")


class _ExtView:
    """the extracted function seen from another module (for global-name resolution while inlining)."""

    def __init__(self, ext, relpath):
        self._ext = ext
        self.relpath = relpath
        self.enclosing_functions = []

    def __getattr__(self, n):
        return getattr(self._ext, n)


def _harmless_decorator(d):
    txt = ast.unparse(d)
    return txt in ("property", "staticmethod", "t.no_type_check", "trait", "mypyc_attr") or txt.startswith(("mypyc_attr", "wraps("))


# tiny getters that are always inlined from their real source
DEFAULT_INLINE = {
    ("sqlglot/helper.py", "seq_get"),
}
