"""Symbolic values, symbolic state, type specs and the class registry."""
import z3

from . import smt
from .smt import Val, IntS, BoolS


class Unsupported(Exception):
    """The function is outside the supported subset: verdict UNDECIDED, never a violation."""


class SV:
    """A symbolic value: a z3 term of sort Val plus a static type hint and python-level meta."""

    __slots__ = ("t", "ty", "meta")

    def __init__(self, t, ty=None, meta=None):
        self.t = t
        self.ty = ty  # None | int | bool | str | none | list | dict | set | tuple | real | func | obj:<Class>
        self.meta = meta  # ('class', cls) ('func', f, selfsv) ('module', m) ('lambda', node, frame) ('pyconst', obj) ('tuple', [SV..])

    def __repr__(self):
        return f"SV({self.t}, {self.ty}, {self.meta and self.meta[0]})"


def sv_int(x):
    return SV(smt.mk_int(x), "int")


def sv_bool(x):
    return SV(smt.mk_bool(x), "bool")


def sv_str(x):
    return SV(smt.mk_str(x), "str")


SV_NONE = SV(smt.NONE, "none")


class TypeSpec:
    """Parsed type string: alternatives separated by '|'; 'list[T]' carries an element type."""

    BASE = {"int", "bool", "str", "none", "list", "dict", "set", "tuple", "real", "func", "any"}

    def __init__(self, s):
        self.src = s
        self.alts = []
        self.elem = None
        for a in s.split("|"):
            a = a.strip()
            if a.startswith("list[") and a.endswith("]"):
                self.elem = TypeSpec(a[5:-1])
                a = "list"
            self.alts.append(a)

    @property
    def single(self):
        if len(self.alts) == 1 and self.alts[0] != "any":
            a = self.alts[0]
            return a if a in self.BASE else "obj:" + a
        return None


class ClassRegistry:
    """Maps the real (imported) classes mentioned by code / contracts to ids and isa-predicates."""

    def __init__(self):
        self.by_name = {}  # name -> real class
        self.ids = {}  # real class -> int
        self.preds = {}  # real class -> z3 Function Int->Bool
        self.const_ids = {}  # id(pyobj) -> (negative int, pyobj)
        self.field_owner_scan = {}

    def register(self, cls, name=None):
        if cls not in self.ids:
            self.ids[cls] = smt.FIRST_USER_CLS + len(self.ids)
            nm = f"isa_{cls.__name__}_{self.ids[cls]}"
            self.preds[cls] = z3.Function(nm, IntS, BoolS)
        self.by_name.setdefault(name or cls.__name__, cls)
        return self.ids[cls]

    def cid(self, cls):
        return self.register(cls)

    def isa(self, cls, cls_term):
        if cls is list:
            return cls_term == smt.CLS_LIST
        if cls is dict:
            return cls_term == smt.CLS_DICT
        if cls in (set, frozenset):
            return cls_term == smt.CLS_SET
        if cls is tuple:
            return cls_term == smt.CLS_TUPLE
        if cls is object:
            return z3.BoolVal(True)
        self.register(cls)
        return self.preds[cls](cls_term)

    def const_ref(self, obj):
        k = id(obj)
        if k not in self.const_ids:
            self.const_ids[k] = (-(len(self.const_ids) + 1), obj)
        return self.const_ids[k][0]

    def axioms(self):
        """Relations between the registered classes, read from the real class objects."""
        ax = []
        classes = list(self.ids)
        c = z3.Int("c!cls")
        for C in classes:
            p = self.preds[C]
            # concrete ids
            for D in classes:
                ax.append(p(self.ids[D]) == z3.BoolVal(issubclass(D, C)))
            for k in range(0, smt.FIRST_USER_CLS):
                pass
            ax.append(z3.ForAll([c], z3.Implies(c < smt.FIRST_USER_CLS, z3.Not(p(c))), patterns=[p(c)]))
        for a in range(len(classes)):
            for b in range(len(classes)):
                if a == b:
                    continue
                A, B = classes[a], classes[b]
                if issubclass(A, B):
                    ax.append(z3.ForAll([c], z3.Implies(self.preds[A](c), self.preds[B](c)), patterns=[self.preds[A](c)]))
                elif a < b and not issubclass(B, A) and _disjoint(A, B):
                    ax.append(
                        z3.ForAll([c], z3.Not(z3.And(self.preds[A](c), self.preds[B](c))), patterns=[self.preds[A](c), self.preds[B](c)])
                    )
        # constant objects: distinct negative refs with known classes
        for _, (rid, obj) in self.const_ids.items():
            cls = type(obj)
            self.register(cls)
        for _, (rid, obj) in self.const_ids.items():
            ax.append(smt.CLS[rid] == self.ids[type(obj)])
        return ax


def _all_subclasses(C):
    seen, stack = set(), [C]
    while stack:
        x = stack.pop()
        for s in x.__subclasses__():
            if s not in seen:
                seen.add(s)
                stack.append(s)
    return seen


def _disjoint(A, B):
    """closed-world: no loaded class is a subclass of both."""
    sa = _all_subclasses(A) | {A}
    return not any(issubclass(x, B) for x in sa)


class State:
    def __init__(self):
        self.locals = {}
        self.heap = {}
        self.pc = []
        self.alloc = z3.Int("alloc0")
        self.notes = []

    def copy(self):
        s = State.__new__(State)
        s.locals = dict(self.locals)
        s.heap = dict(self.heap)
        s.pc = list(self.pc)
        s.alloc = self.alloc
        s.notes = list(self.notes)
        for extra in ("heap_epoch", "havocked", "raise_site"):
            if hasattr(self, extra):
                setattr(s, extra, getattr(self, extra))
        return s

    # ---- heap arrays -------------------------------------------------------------------------
    def H(self, field):
        if field not in self.heap:
            self.heap[field] = initial_array(field)
        return self.heap[field]

    def setH(self, field, arr):
        self.heap[field] = arr

    def assume(self, *facts):
        for f in facts:
            f = z3.simplify(f)
            if not z3.is_true(f):
                self.pc.append(f)


def array_sort(field):
    if field == "$len":
        return z3.ArraySort(IntS, IntS)
    if field == "$items":
        return z3.ArraySort(IntS, z3.ArraySort(IntS, Val))
    if field == "$dhas":
        return z3.ArraySort(IntS, z3.ArraySort(Val, BoolS))
    if field == "$dval":
        return z3.ArraySort(IntS, z3.ArraySort(Val, Val))
    return z3.ArraySort(IntS, Val)


def initial_array(field):
    return z3.Const(f"H0.{field}", array_sort(field))


def fresh_array(field, tag="hv"):
    return smt.fresh(f"H.{field}.{tag}", array_sort(field))
