"""RegTrans: a decision procedure for compositions of str.replace(const, const) with constant padding.

SMT solvers answer `unknown` on replace_all chains, so these obligations are decided by automata: every step is a
deterministic finite-state transducer over an abstract alphabet (the characters mentioned by the constants + one
class OTHER + one class SPACE), the composition is explored exhaustively over all reachable product states, and the
question "can the output contain a forbidden factor / an odd run of the delimiter" is product-automaton reachability --
complete for strings of every length.  The chains themselves are extracted from the real source (ast) on every run; the
constants are read from the real Generator / Dialect classes.  The str.replace transducer is cross-checked against
CPython on all strings up to length 7 over the abstract alphabet on every run.
"""
import argparse
import ast
import hashlib
import itertools
import json
import os
import sys
import time

REPO = os.environ.get("VERIF_REPO", "/repo")
sys.path.insert(0, REPO)

OTHER = "␀"  # stands for any character not mentioned by a constant (non-whitespace)


# ---------------------------------------------------------------------------------------------------- transducers
class Replace:
    """streaming leftmost non-overlapping str.replace(a, b): state = length of the pending partial match."""

    def __init__(self, a, b):
        assert a
        self.a, self.b = a, b

    def start(self):
        return 0

    def step(self, k, ch):
        buf = self.a[:k] + ch
        # longest suffix of buf that is a prefix of a
        for j in range(min(len(buf), len(self.a)), -1, -1):
            if buf.endswith(self.a[:j]):
                if j == len(self.a):
                    # full match: everything before the match start has been emitted already
                    return 0, buf[: len(buf) - j] + self.b
                return j, buf[: len(buf) - j]
        return 0, buf

    def flush(self, k):
        return self.a[:k]


class CharMap:
    def __init__(self, table):
        self.table = table

    def start(self):
        return 0

    def step(self, k, ch):
        return 0, self.table.get(ch, ch)

    def flush(self, k):
        return ""


class PadFirst:
    """prepend `pad` when the first character is not whitespace (comment[0].strip() truthy)."""

    def __init__(self, pad=" "):
        self.pad = pad

    def start(self):
        return 0

    def step(self, k, ch):
        if k == 0:
            return 1, (self.pad + ch) if ch.strip() else ch
        return 1, ch

    def flush(self, k):
        return ""


class PadLast:
    """append `pad` when the last character is not whitespace: one character of lookbehind."""

    def __init__(self, pad=" "):
        self.pad = pad

    def start(self):
        return ""

    def step(self, k, ch):
        return ch, ""  # remember the last char; the char itself is emitted immediately below

    def flush(self, k):
        return self.pad if (k and k.strip()) else ""


class PadLastT(PadLast):
    def step(self, k, ch):
        return ch, ch


class Wrap:
    def __init__(self, left, right):
        self.left, self.right = left, right

    def start(self):
        return 0

    def step(self, k, ch):
        return 1, (self.left + ch) if k == 0 else ch

    def flush(self, k):
        return (self.left if k == 0 else "") + self.right


def run_chain(chain, s):
    """reference semantics of the transducer chain on a concrete string (used for the CPython cross-check)."""
    states = [t.start() for t in chain]
    out = []

    def feed(i, text):
        if i == len(chain):
            out.append(text)
            return
        for ch in text:
            states[i], em = chain[i].step(states[i], ch)
            feed(i + 1, em)

    feed(0, s)
    for i in range(len(chain)):
        feed(i + 1, chain[i].flush(states[i]))
    return "".join(out)


# ---------------------------------------------------------------------------------------------------- monitors
class NoFactor:
    """accepting (= violation) as soon as the output contains one of the forbidden factors: one KMP matcher per factor,
    so the monitor state is the tuple of matched-prefix lengths (finite and small)."""

    def __init__(self, factors):
        self.factors = factors

    def start(self):
        return tuple(0 for _ in self.factors)

    @staticmethod
    def _next(f, k, ch):
        buf = f[:k] + ch
        for j in range(min(len(buf), len(f)), -1, -1):
            if buf.endswith(f[:j]):
                return j
        return 0

    def step(self, st, ch):
        nxt = []
        bad = False
        for f, k in zip(self.factors, st):
            j = self._next(f, k, ch)
            if j == len(f):
                bad = True
                # continue matching after a hit (longest proper border)
                j = max([b for b in range(len(f)) if f.endswith(f[:b])] or [0])
            nxt.append(j)
        return tuple(nxt), bad

    def end(self, st):
        return False


class EvenRuns:
    """body between `skip_left` leading and `skip_right` trailing characters: every maximal run of `d` has even length."""

    def __init__(self, d):
        self.d = d

    def start(self):
        return 0

    def step(self, run, ch):
        if ch == self.d:
            return run + 1 & 1 if False else (run + 1) % 2, False
        return 0, run % 2 == 1

    def end(self, run):
        return run % 2 == 1


def explore(chain, monitor, alphabet, require_nonempty=True, max_states=200000):
    """BFS over the product of the chain states and the monitor; returns a shortest violating input or None."""
    init = (tuple(t.start() for t in chain), monitor.start(), False)
    seen = {init: None}
    queue = [init]
    qi = 0

    def push(states, i, text, mon, bad):
        # feed `text` into transducer i.. and the monitor; returns (mon, bad)
        if i == len(chain):
            for ch in text:
                mon, b = monitor.step(mon, ch)
                bad = bad or b
            return mon, bad
        for ch in text:
            states[i], em = chain[i].step(states[i], ch)
            mon, bad = push(states, i + 1, em, mon, bad)
        return mon, bad

    def witness(node):
        s = []
        while seen[node] is not None:
            node, ch = seen[node]
            s.append(ch)
        return "".join(reversed(s))

    while qi < len(queue):
        node = queue[qi]
        qi += 1
        states0, mon0, bad0 = node
        # end of input here?
        if not (require_nonempty and seen[node] is None):
            states = list(states0)
            mon, bad = mon0, bad0
            for i in range(len(chain)):
                mon, bad = push(states, i + 1, chain[i].flush(states[i]), mon, bad)
            if bad or monitor.end(mon):
                return witness(node)
        for ch in alphabet:
            states = list(states0)
            mon, bad = push(states, 0, ch, mon0, bad0)
            nxt = (tuple(states), mon, bad)
            if nxt not in seen:
                seen[nxt] = (node, ch)
                queue.append(nxt)
                if len(seen) > max_states:
                    raise RuntimeError("state budget exceeded")
    return None


# ---------------------------------------------------------------------------------------------------- extraction
def method_ast(relpath, cls, name):
    src = open(os.path.join(REPO, relpath), encoding="utf-8").read()
    tree = ast.parse(src)
    for c in tree.body:
        if isinstance(c, ast.ClassDef) and c.name == cls:
            for f in c.body:
                if isinstance(f, ast.FunctionDef) and f.name == name:
                    seg = ast.get_source_segment(src, f)
                    return f, hashlib.sha256(seg.encode()).hexdigest()
    raise LookupError(f"{relpath}:{cls}.{name}")


def replace_chain_of(expr, var):
    """`var.replace(A, B).replace(C, D)...` -> [(A, B), (C, D)] (constants only), else None."""
    steps = []
    while isinstance(expr, ast.Call) and isinstance(expr.func, ast.Attribute) and expr.func.attr == "replace":
        a, b = expr.args
        if not (isinstance(a, ast.Constant) and isinstance(b, ast.Constant)):
            return None
        steps.append((a.value, b.value))
        expr = expr.func.value
    if isinstance(expr, ast.Name) and expr.id == var:
        return list(reversed(steps))
    return None


def extract_sanitize_comment():
    fn, sha = method_ast("sqlglot/generator.py", "Generator", "sanitize_comment")
    chain = []
    var = fn.args.args[1].arg
    for st in fn.body:
        if isinstance(st, ast.Expr) and isinstance(st.value, ast.Constant):
            continue
        if isinstance(st, ast.Return):
            if not (isinstance(st.value, ast.Name) and st.value.id == var):
                raise ValueError("unexpected return " + ast.unparse(st))
            continue
        if not (isinstance(st, ast.Assign) and isinstance(st.targets[0], ast.Name) and st.targets[0].id == var):
            raise ValueError("unexpected statement " + ast.unparse(st))
        txt = ast.unparse(st.value)
        if txt == f"' ' + {var} if {var}[0].strip() else {var}":
            chain.append(PadFirst(" "))
        elif txt == f"{var} + ' ' if {var}[-1].strip() else {var}":
            chain.append(PadLastT(" "))
        else:
            steps = replace_chain_of(st.value, var)
            if steps is None:
                raise ValueError("unexpected expression " + txt)
            chain += [Replace(a, b) for a, b in steps]
    return chain, sha


def crosscheck(chain, pyfunc, alphabet, maxlen=6):
    """transducer chain == CPython on all strings up to maxlen over the abstract alphabet."""
    n = 0
    for L in range(1, maxlen + 1):
        for tup in itertools.product(alphabet, repeat=L):
            s = "".join(tup)
            if run_chain(chain, s) != pyfunc(s):
                return n, s
            n += 1
    return n, None


def main():
    ap = argparse.ArgumentParser()
    ap.add_argument("--prop", default="C04")
    ap.add_argument("--out")
    a = ap.parse_args()
    t0 = time.time()
    import sqlglot  # noqa
    from sqlglot.generator import Generator
    from sqlglot.dialects.dialect import Dialect
    import sqlglot.dialects as D

    functions = []

    def record(name, sha, obligations):
        functions.append({
            "function": name, "props": ["C04", "C07"], "sha256": sha, "lineno": 0, "status": "ok", "reason": "", "paths": 1,
            "assumptions": ["alphabet abstraction: every character not mentioned by a constant behaves like one fresh non-whitespace character",
                            "str.replace modelled as a streaming KMP transducer (cross-checked against CPython on all strings up to length 6 over the abstract alphabet on this run)"],
            "opaque": [], "inlined": [], "callee_contracts": [], "gen_s": 0, "obligations": obligations,
        })

    def ob(oid, text, witness, replay=None):
        return {"id": oid, "kind": "post", "text": text, "line": 0, "verdict": "discharged" if witness is None else "refuted", "solver": "regtrans",
                "time": 0.0, "attempts": [], "after_havoc": False, "model": "" if witness is None else json.dumps({"witness_input": witness, "replay": replay})}

    g = Generator()
    # ---- sanitize_comment: no comment terminator / opener can survive  (C04, C07)
    try:
        chain, sha = extract_sanitize_comment()
        alpha = ["*", "/", " ", "\n", OTHER]
        n, bad = crosscheck(chain, g.sanitize_comment, alpha)
        obs = [ob("sanitize_comment:transducer==CPython", f"transducer chain equals Generator.sanitize_comment on all {n} strings up to length 6", bad)]
        w = explore(chain, NoFactor(["*/", "/*"]), alpha)
        obs.append(ob("sanitize_comment:no-comment-markers", "for every non-empty comment the sanitized text contains neither '*/' nor '/*'", w,
                      None if w is None else g.sanitize_comment(w.replace(OTHER, "x"))))
        record("sqlglot/generator.py:Generator.sanitize_comment", sha, obs)
    except (ValueError, LookupError) as ex:
        functions.append({"function": "sqlglot/generator.py:Generator.sanitize_comment", "props": ["C04", "C07"], "sha256": "", "lineno": 0, "status": "undecided",
                          "reason": f"unsupported: shape of the replace chain changed: {ex}", "paths": 0, "assumptions": [], "opaque": [], "inlined": [], "callee_contracts": [], "gen_s": 0, "obligations": []})

    # ---- sentinel clause of generate(): sql.replace(SENTINEL, "\n") leaves no sentinel  (C07)
    try:
        fn, sha = method_ast("sqlglot/generator.py", "Generator", "generate")
        found = None
        for n_ in ast.walk(fn):
            if isinstance(n_, ast.Call) and isinstance(n_.func, ast.Attribute) and n_.func.attr == "replace" and "SENTINEL_LINE_BREAK" in ast.unparse(n_.args[0]):
                found = n_
        if found is None or not (isinstance(found.args[1], ast.Constant)):
            raise ValueError("sentinel replacement not found in generate()")
        sent = Generator.SENTINEL_LINE_BREAK
        chain = [Replace(sent, found.args[1].value)]
        alpha = sorted(set(sent)) + ["\n", OTHER]
        n, bad = crosscheck(chain, lambda s: s.replace(sent, found.args[1].value), alpha, maxlen=4)
        obs = [ob("generate:sentinel-transducer==CPython", f"transducer equals str.replace on all {n} strings up to length 4", bad)]
        w = explore(chain, NoFactor([sent]), alpha, require_nonempty=False)
        obs.append(ob("generate:no-sentinel-survives", f"for every text, text.replace({sent!r}, '\\n') does not contain the sentinel", w))
        record("sqlglot/generator.py:Generator.generate#sentinel", sha, obs)
    except (ValueError, LookupError) as ex:
        functions.append({"function": "sqlglot/generator.py:Generator.generate#sentinel", "props": ["C07"], "sha256": "", "lineno": 0, "status": "undecided",
                          "reason": f"unsupported: {ex}", "paths": 0, "assumptions": [], "opaque": [], "inlined": [], "callee_contracts": [], "gen_s": 0, "obligations": []})

    # ---- identifier_sql: inside the delimiters every run of IDENTIFIER_END has even length, for every dialect  (C04)
    try:
        fn, sha = method_ast("sqlglot/generator.py", "Generator", "identifier_sql")
        txt = ast.unparse(fn)
        if "text.replace(self._identifier_end, self._escaped_identifier_end)" not in txt:
            raise ValueError("identifier_sql no longer doubles the identifier end through text.replace(...)")
        obs = []
        names = sorted(n for n in getattr(D, "DIALECTS", []) if n != "Dialect")
        for dn in [""] + [n.lower() for n in names]:
            d = Dialect.get_or_raise(dn or None)
            gen = d.generator()
            end, esc = gen._identifier_end, gen._escaped_identifier_end
            if len(end) != 1:
                obs.append(ob(f"identifier_sql:{dn or 'base'}:delimiter", "identifier end delimiter is a single character", "multi-character delimiter " + repr(end)))
                continue
            chain = [Replace(end, esc)]
            alpha = sorted({end, "\\", "a"}) + [OTHER]
            n, bad = crosscheck(chain, lambda s: s.replace(end, esc), alpha, maxlen=5)
            if bad is not None:
                obs.append(ob(f"identifier_sql:{dn or 'base'}:transducer", "transducer equals str.replace", bad))
            w = explore(chain, EvenRuns(end), alpha, require_nonempty=False)
            obs.append(ob(f"identifier_sql:{dn or 'base'}:end-delimiter-doubled", f"{dn or 'base'}: in text.replace({end!r}, {esc!r}) every maximal run of {end!r} has even length (the body cannot close the identifier)", w))
        record("sqlglot/generator.py:Generator.identifier_sql", sha, obs)
    except (ValueError, LookupError) as ex:
        functions.append({"function": "sqlglot/generator.py:Generator.identifier_sql", "props": ["C04"], "sha256": "", "lineno": 0, "status": "undecided",
                          "reason": f"unsupported: {ex}", "paths": 0, "assumptions": [], "opaque": [], "inlined": [], "callee_contracts": [], "gen_s": 0, "obligations": []})

    functions = [f for f in functions if a.prop in f["props"]]
    res = {"generation_s": round(time.time() - t0, 2), "wall_s": round(time.time() - t0, 2), "functions": functions, "solver_time_s": round(time.time() - t0, 2), "mode": "regtrans"}
    if a.out:
        json.dump(res, open(a.out, "w"), indent=1)
    for f in functions:
        d = sum(o["verdict"] == "discharged" for o in f["obligations"])
        print(f"{f['function']}: {f['status']} {f['reason']} obligations={len(f['obligations'])} discharged={d}")
        for o in f["obligations"]:
            if o["verdict"] != "discharged":
                print("   REFUTED", o["id"], o["model"][:200])


if __name__ == "__main__":
    main()
