#!/usr/bin/env python3
"""Applies each seeded fault to a scratch copy of /repo (outside /repo and /verif, removed afterwards) and runs the
contracts of the affected function."""
import json
import os
import shutil
import subprocess
import sys
import tempfile

HERE = os.path.dirname(os.path.dirname(os.path.abspath(__file__)))
sys.path.insert(0, HERE)
from selftest.mutants import MUTANTS, KEEP  # noqa

REPO = os.environ.get("VERIF_REPO", "/repo")


def run_one(mid, mod, rel, old, new, func, expect_fail):
    base = os.environ.get("XDG_RUNTIME_DIR") or "/var/tmp"
    scratch = tempfile.mkdtemp(prefix="verif-scratch-", dir=base)
    try:
        shutil.copytree(os.path.join(REPO, "sqlglot"), os.path.join(scratch, "sqlglot"))
        path = os.path.join(scratch, rel)
        src = open(path).read()
        if src.count(old) != 1:
            return mid, "SKIP", f"anchor text occurs {src.count(old)} times"
        open(path, "w").write(src.replace(old, new))
        out = os.path.join(scratch, "res.json")
        env = dict(os.environ, VERIF_REPO=scratch, PYTHONPATH=HERE)
        only = func.split(".")[-1] if "." in func else func
        p = subprocess.run(["python3-vt", "-m", "pyvc.run", mod, "--only", func.split("#")[0], "--json", out], cwd=HERE, env=env, capture_output=True, text=True)
        if p.returncode != 0:
            return mid, "ERROR", p.stderr[-400:]
        res = json.load(open(out))
        verdicts = {}
        for f in res["functions"]:
            if f["status"] != "ok":
                verdicts["undecided:" + f["reason"][:60]] = verdicts.get("undecided", 0) + 1
            for o in f["obligations"]:
                if o["kind"] in ("cover", "mustfail"):
                    continue
                verdicts[o["verdict"]] = verdicts.get(o["verdict"], 0) + 1
        refuted = verdicts.get("refuted", 0)
        notd = sum(v for k, v in verdicts.items() if k != "discharged")
        if expect_fail:
            status = "CAUGHT" if refuted else ("UNDECIDED" if notd else "MISSED")
        else:
            status = "OK" if notd == 0 else "FALSE-ALARM"
        return mid, status, json.dumps(verdicts)
    finally:
        shutil.rmtree(scratch, ignore_errors=True)


def main():
    from concurrent.futures import ThreadPoolExecutor

    jobs = [(m, True) for m in MUTANTS] + [(m, False) for m in KEEP]
    sel = sys.argv[1:]
    if sel:
        jobs = [j for j in jobs if any(s in j[0][0] for s in sel)]
    bad = 0
    with ThreadPoolExecutor(8) as ex:
        for (mid, status, info) in ex.map(lambda j: run_one(*j[0], j[1]), jobs):
            print(f"{status:11s} {mid:40s} {info[:150]}")
            if status not in ("CAUGHT", "OK"):
                bad += 1
    print(f"{len(jobs)} seeded edits, {bad} not as expected")
    sys.exit(1 if bad else 0)


if __name__ == "__main__":
    main()
