#!/usr/bin/env python3
"""Checks every builtin axiom that has a `check` predicate against CPython, for every Unicode code point
(character-level) and for a fixed set of multi-character strings.  An axiom that fails here is unsound: exit 3."""
import importlib
import os
import sys

HERE = os.path.dirname(os.path.dirname(os.path.abspath(__file__)))
sys.path.insert(0, HERE)
sys.path.insert(0, os.environ.get("VERIF_REPO", "/repo"))
from pyvc import contract as C  # noqa

MODS = ["contracts.identifiers", "contracts.tokenizer"]


def main():
    for m in MODS:
        importlib.import_module(m)
    from sqlglot.dialects.dialect import ASCII_LOWER, ASCII_UPPER

    env = {"ASCII_LOWER": ASCII_LOWER, "ASCII_UPPER": ASCII_UPPER}
    multi = ["", "aB", "ΑΣ", "ΣΑΣ", "ßs", "İi", "ǅǆ", "ﬁ", "ŉa", "ȧ", "Straße", "ΟΔΥΣΣΕΥΣ"]
    bad = 0
    n = 0
    for name, lam, src in C.AXIOMS:
        chk = C.AXIOM_CHECKS.get(name)
        if not chk:
            print(f"axiom {name}: no CPython check (trusted)")
            continue
        f = eval(chk, env)
        fails = [hex(i) for i in range(0x110000) if not f(chr(i))][:5]
        fails += [repr(s) for s in multi if not f(s)]
        n += 0x110000 + len(multi)
        print(f"axiom {name}: {'OK' if not fails else 'FAILS ' + str(fails)}  ({src})")
        bad += bool(fails)
    print(f"{n} evaluations, {bad} failing axioms")
    sys.exit(3 if bad else 0)


if __name__ == "__main__":
    main()
