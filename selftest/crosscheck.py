#!/usr/bin/env python3
"""CPython cross-check of contracts on the pure kernels: the SAME contract strings that PyVC discharges are evaluated
natively (plain Python eval with run-time versions of the spec vocabulary) on the real functions over an exhaustive small
domain.  A contract that the prover discharged but that fails natively means the encoding (or the contract reading) is
unsound: exit 3.  Runs under /venv/bin/python."""
import importlib
import itertools
import os
import sys

HERE = os.path.dirname(os.path.dirname(os.path.abspath(__file__)))
sys.path.insert(0, HERE)
sys.path.insert(0, os.environ.get("VERIF_REPO", "/repo"))

from pyvc import contract as C  # noqa

import contracts.env_kernels  # noqa
from sqlglot.executor import env as ENV  # noqa


def implies(a, b):
    return (not a) or b


def iff(a, b):
    return bool(a) == bool(b)


def ite(c, a, b):
    return a if c else b


def forall(dom, f):
    return all(f(x) for x in dom)


def exists(dom, f):
    return any(f(x) for x in dom)


def truthy(x):
    return bool(x)


def is_bool(x):
    return isinstance(x, bool)


def spec_env(extra):
    env = {"implies": implies, "iff": iff, "ite": ite, "forall": forall, "exists": exists, "truthy": truthy, "is_bool": is_bool,
           "min": min, "max": max, "len": len, "range": range}
    for name, fn in C.SPECS.items():
        env[name] = eval(fn.src, env)  # spec functions are lambdas in Python syntax
    env.update(extra)
    return env


MISMATCHES = []  # (label, repr(args), repr(result), clause) of every natively failing clause


def check(qual, call, ensures, cases, extra=None):
    bad = 0
    n = 0
    for args in cases:
        try:
            result = call(*args)
        except Exception as e:  # the real kernel raising on a value of its domain is a failing input as well
            result = ("raised", type(e).__name__, str(e)[:80])
        env = spec_env(dict(extra(args) if extra else {}, result=result))
        for cl in ensures:
            n += 1
            # `is` between value terms is structural identity in the spec language; natively the recorder builds new tuples
            cl = cl.replace(" is wrapped(", " == wrapped(")
            try:
                holds = bool(eval(cl, env))
            except Exception:
                holds = False
            if not holds:
                bad += 1
                MISMATCHES.append({"function": qual, "args": repr(args), "result": repr(result), "clause": cl})
                if bad <= 3:
                    print(f"  MISMATCH {qual}{args!r} -> {result!r} violates: {cl}")
    print(f"{qual}: {n} native clause evaluations, {bad} mismatches")
    return bad


def main():
    V = [None, False, True, 0, 1, 2]
    bad = 0
    reg = {k[1]: c for k, c in C.REGISTRY.items()}
    bad += check("sql_not", ENV.sql_not, reg["sql_not"].ensures, [(v,) for v in V], lambda a: {"value": a[0]})
    for name in ("sql_and", "sql_or"):
        f = getattr(ENV, name)
        bad += check(name, lambda l, r, f=f: f(lambda: l, lambda: r), reg[name].ensures, list(itertools.product(V, V)),
                     lambda a: {"leftval": lambda: a[0], "rightval": lambda: a[1]})
    cands = [c for n in range(0, 4) for c in itertools.product([None, 1, 2], repeat=n)]
    bad += check("sql_in", lambda v, c: ENV.sql_in(v, *c), reg["sql_in"].ensures, [(v, c) for v in [None, 1, 2, 3] for c in cands],
                 lambda a: {"value": a[0], "candidates": a[1]})
    # null_if_any (all args) and filter_nulls wrap an arbitrary function: use an injective recorder
    rec = lambda *args: ("called", args)
    wrapped_all = ENV.null_if_any(rec)
    bad += check("null_if_any#all_args", lambda *a: wrapped_all(*a), reg["null_if_any.decorator._func#all_args"].ensures,
                 [a for n in range(0, 4) for a in itertools.product([None, 1, 2], repeat=n)],
                 lambda a: {"args": a, "wrapped": lambda x: ("called", tuple(x))})
    agg = lambda vals: ("agg", tuple(vals))
    for empty_null in (True, False):
        fn = ENV.filter_nulls(agg, empty_null)
        ens = [e for e in reg["filter_nulls._func"].ensures if "filtered" not in e or "wrapped(filtered)" in e]
        def extra(a, empty_null=empty_null):
            vals = a[0]
            filt = tuple(v for v in vals if v is not None)
            return {"values": vals, "empty_null": empty_null, "filtered": filt, "wrapped": lambda x: ("agg", tuple(x))}
        bad += check(f"filter_nulls(empty_null={empty_null})", lambda vals, fn=fn: fn(vals), reg["filter_nulls._func"].ensures,
                     [(a,) for n in range(0, 4) for a in itertools.product([None, 1, 2], repeat=n)], extra)
    print("cross-check", "FAILED" if bad else "ok")
    if "--json" in sys.argv:
        import json

        json.dump(MISMATCHES, open(sys.argv[sys.argv.index("--json") + 1], "w"), indent=1)
        sys.exit(0)
    sys.exit(3 if bad else 0)


if __name__ == "__main__":
    main()
