"""Seeded faults for the verifier itself (DESIGN 2.5): each mutant changes the real source text in a scratch copy
and must turn at least one obligation of the named function from discharged to refuted (or, for behaviour-preserving
edits in KEEP, must leave everything discharged).  Run: python3 selftest/run_mutants.py"""

# (id, contract module, relpath, old text, new text, function whose obligations must fail)
MUTANTS = [
    ("advance-next-off-by-one", "contracts.parser_cursor", "sqlglot/parser.py",
     "self._next = tokens[index + 1] if index + 1 < size else SENTINEL_NONE", "self._next = tokens[index + 1] if index + 1 <= size else SENTINEL_NONE", "Parser._advance"),
    ("advance-prev-wrong", "contracts.parser_cursor", "sqlglot/parser.py",
     "            prev = tokens[index - 1]\n", "            prev = tokens[index - 1] if index > 1 else tokens[0]\n            prev = tokens[0]\n", "Parser._advance"),
    ("match-text-seq-no-retreat", "contracts.parser_cursor", "sqlglot/parser.py",
     "            else:\n                self._retreat(index)\n                return False\n\n        if not advance:", "            else:\n                return False\n\n        if not advance:", "Parser._match_text_seq"),
    ("match-pair-advance-1", "contracts.parser_cursor", "sqlglot/parser.py", "                self._advance(2)\n            return True", "                self._advance(1)\n            return True", "Parser._match_pair"),
    ("try-parse-restore-outside-finally", "contracts.errors_funnel", "sqlglot/parser.py",
     "                self._retreat(index)\n            self.error_level = error_level\n\n        return this", "                self._retreat(index)\n        self.error_level = error_level\n\n        return this", "Parser._try_parse"),
    ("try-parse-no-retreat-on-none", "contracts.errors_funnel", "sqlglot/parser.py", "            if not this or retreat:\n                self._retreat(index)", "            if retreat:\n                self._retreat(index)", "Parser._try_parse"),
    ("check-errors-raise-under-warn", "contracts.errors_funnel", "sqlglot/parser.py", "elif self.error_level == ErrorLevel.RAISE and self.errors:", "elif self.error_level != ErrorLevel.IGNORE and self.errors:", "Parser.check_errors"),
    ("raise-error-immediate-swallow", "contracts.errors_funnel", "sqlglot/parser.py", "        if self.error_level == ErrorLevel.IMMEDIATE:\n            raise error\n", "        if self.error_level == ErrorLevel.IMMEDIATE and len(self.errors) < 3:\n            raise error\n", "Parser.raise_error"),
    ("validate-ignore-flag", "contracts.errors_funnel", "sqlglot/parser.py", "        if self.error_level != ErrorLevel.IGNORE:\n            for error_message", "        if self.error_level != ErrorLevel.WARN:\n            for error_message", "Parser.validate_expression"),
    ("concat-messages-off-by-one", "contracts.errors_funnel", "sqlglot/errors.py", "    if remaining > 0:\n        msg.append", "    if remaining > 1:\n        msg.append", "concat_messages"),
    ("sql-and-null", "contracts.env_kernels", "sqlglot/executor/env.py", "    return None if left is None or right is None else True", "    return None if left is None else True", "sql_and"),
    ("sql-or-shortcut", "contracts.env_kernels", "sqlglot/executor/env.py", "    if left is True:\n        return True\n\n    right = right()", "    if left is not False:\n        return left\n\n    right = right()", "sql_or"),
    ("sql-in-null", "contracts.env_kernels", "sqlglot/executor/env.py", "    return None if has_null else False", "    return False", "sql_in"),
    ("null-if-any-all", "contracts.env_kernels", "sqlglot/executor/env.py", "                return any(a is None for a in args)", "                return all(a is None for a in args)", "null_if_any.decorator._func"),
    ("filter-nulls-empty", "contracts.env_kernels", "sqlglot/executor/env.py", "        if not filtered and empty_null:\n            return None", "        if not values and empty_null:\n            return None", "filter_nulls._func"),
    ("set-skip-hash-walk", "contracts.core_tree", "sqlglot/expressions/core.py",
     "        node: Expr | None = self\n\n        while node and node._hash is not None:\n            node._hash = None\n            node = node.parent\n\n        if index is not None:",
     "        self._hash = None\n\n        if index is not None:", "Expression.set"),
    ("set-index-shift-missing", "contracts.core_tree", "sqlglot/expressions/core.py", "                for v in expressions[index:]:\n                    v.index = v.index - 1\n", "                for v in expressions[index + 1 :]:\n                    v.index = v.index - 1\n", "Expression.set"),
    ("append-index", "contracts.core_tree", "sqlglot/expressions/core.py", "            value.index = len(values)\n        values.append(value)", "            value.index = len(values) + 1\n        values.append(value)", "Expression.append"),
    ("set-parent-arg-key", "contracts.core_tree", "sqlglot/expressions/core.py", "                if isinstance(v, Expr):\n                    v.parent = self\n                    v.arg_key = arg_key\n                    v.index = i", "                if isinstance(v, Expr):\n                    v.parent = self\n                    v.index = i", "Expression._set_parent"),
    ("replace-keeps-links", "contracts.core_tree", "sqlglot/expressions/core.py", "        if expression is not self:\n            self.parent = None\n            self.arg_key = None\n            self.index = None", "        if expression is not self:\n            self.parent = None\n            self.index = None", "Expression.replace"),
    ("add-table-pop-only", "contracts.schema_cache", "sqlglot/schema.py", "        self._find_cache.clear()\n", "        self._find_cache.pop((normalized_table, True), None)\n        self._find_cache.pop((normalized_table, False), None)\n", "MappingSchema.add_table"),
    ("find-skip-cache-store", "contracts.schema_cache", "sqlglot/schema.py", "        cache_key = (table, ensure_data_types)\n        schema = self._find_cache.get(cache_key)", "        cache_key = (table, False)\n        schema = self._find_cache.get(cache_key)", "MappingSchema.find"),
    ("tok-advance-col", "contracts.tokenizer", "sqlglot/tokenizer_core.py", "                self._col = i\n                self._line += 1", "                self._col = 0\n                self._line += 1", "TokenizerCore._advance"),
    ("tok-add-end", "contracts.tokenizer", "sqlglot/tokenizer_core.py", "                end=self._current - 1,\n                comments=self._comments,", "                end=self._current,\n                comments=self._comments,", "TokenizerCore._add"),
    ("tok-tokenize-wrap", "contracts.tokenizer", "sqlglot/tokenizer_core.py", "        except Exception as e:\n            start = max(self._current - 50, 0)", "        except ValueError as e:\n            start = max(self._current - 50, 0)", "TokenizerCore.tokenize"),
    ("ordered-flip-disjunct", "contracts.null_ordering", "sqlglot/generator.py", "(asc and nulls_are_large) or (desc and nulls_are_small) or nulls_are_last", "(asc and nulls_are_large) or (asc and nulls_are_small) or nulls_are_last", "Generator.ordered_sql"),
    ("parse-ordered-default", "contracts.null_ordering", "sqlglot/parser.py", "            and self.dialect.NULL_ORDERING != \"nulls_are_last\"\n        ):\n            nulls_first = True", "        ):\n            nulls_first = True", "Parser._parse_ordered"),
]

# behaviour-preserving edits: everything must stay discharged (no false alarm)
KEEP = [
    ("rename-local", "contracts.parser_cursor", "sqlglot/parser.py", "        index = self._index + times\n        self._index = index\n        tokens = self._tokens\n        size = self._tokens_size\n        self._curr = tokens[index] if index < size else SENTINEL_NONE\n        self._next = tokens[index + 1] if index + 1 < size else SENTINEL_NONE\n\n        if index > 0:\n            prev = tokens[index - 1]",
     "        idx = self._index + times\n        self._index = idx\n        size = self._tokens_size\n        tokens = self._tokens\n        index = idx\n        self._next = tokens[index + 1] if index + 1 < size else SENTINEL_NONE\n        self._curr = tokens[index] if index < size else SENTINEL_NONE\n\n        if index > 0:\n            prev = tokens[index - 1]", "Parser._advance"),
    ("sql-not-rewrite", "contracts.env_kernels", "sqlglot/executor/env.py", "    return None if value is None else not bool(value)", "    if value is None:\n        return None\n    return not value", "sql_not"),
    ("check-errors-reorder", "contracts.errors_funnel", "sqlglot/parser.py", "        if self.error_level == ErrorLevel.WARN:\n            for error in self.errors:\n                logger.error(str(error))\n        elif self.error_level == ErrorLevel.RAISE and self.errors:",
     "        level = self.error_level\n        if level == ErrorLevel.WARN:\n            for error in self.errors:\n                logger.error(str(error))\n        elif self.errors and level == ErrorLevel.RAISE:", "Parser.check_errors"),
]
