"""Which machinery decides which property (see DESIGN.md section 3)."""

# tier A: sidecar contract modules whose contracts carry `props=[...]`; tier B: bounded module
PROPS = {
    "C01": dict(tier_a=["contracts.prefix_ops"], tier_b="bounded.c01"),
    "C02": dict(tier_a=["contracts.null_ordering"], tier_b="bounded.c02"),
    "C04": dict(tier_a=["contracts.generator_fmt"], regtrans=True, tier_b="bounded.c04"),
    "C05": dict(tier_a=["contracts.parser_cursor", "contracts.errors_funnel", "contracts.tokenizer"], projection=True, tier_b="bounded.c05"),
    "C06": dict(tier_a=["contracts.simplify_tables"], tier_b="bounded.c06"),
    "C07": dict(tier_a=["contracts.generator_fmt"], regtrans=True, scans=["c07"], tier_b="bounded.c07"),
    "C08": dict(tier_a=["contracts.core_tree", "contracts.journal"], tier_b="bounded.c08"),
    "C09": dict(tier_a=["contracts.copy_frames", "contracts.journal"], scans=["c09"], tier_b="bounded.c09"),
    "C10": dict(tier_a=["contracts.identifiers", "contracts.scope_branch"], tier_b="bounded.c10"),
    "C11": dict(tier_a=["contracts.env_kernels", "contracts.executor_kernels"], tier_b="bounded.c11"),
    "C12": dict(tier_a=["contracts.serde_load"], tier_b="bounded.c12"),
    "C13": dict(tier_a=["contracts.tokenizer", "contracts.parser_cursor", "contracts.errors_funnel"], tier_b="bounded.c13"),
    "C14": dict(tier_a=["contracts.errors_funnel", "contracts.generator_fmt"], scans=["c14"], tier_b="bounded.c14"),
    "C15": dict(tier_a=["contracts.generator_fmt", "contracts.schema_cache"], scans=["c15"], tier_b="bounded.c15"),
    "C17": dict(tier_a=["contracts.scope_branch"], tier_b="bounded.c17"),
    "C18": dict(tier_a=["contracts.schema_cache"], tier_b="bounded.c18"),
    "C20": dict(tier_a=["contracts.diff_acct"], tier_b="bounded.c20"),
}

NOT_APPLICABLE = {
    "C03": "result equality of optimized vs original queries for all databases needs a denotational SQL semantics as the spec; no contract within the verifier's reach states it (predicate-level core is C06, output names are in C10)",
    "C16": "the oracle is the type DuckDB reports; no contract on sqlglot code can mention an external engine",
    "C19": "quantifies over thread schedules; the contract verifier has no concurrency reasoning",
}

# properties whose check has been run green on the unchanged tree (mkmanifest claims only these)
READY = {"C01", "C02", "C04", "C05", "C06", "C07", "C08", "C09", "C10", "C11", "C12", "C13", "C14", "C15", "C17", "C18", "C20"}
