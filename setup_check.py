#!/usr/bin/env python3
"""setup: nothing is built or fetched; verify that the tools the checks need are present, offline."""
import os
import shutil
import subprocess
import sys

HERE = os.path.dirname(os.path.abspath(__file__))
ok = True
for tool in ("python3-vt", "z3-new", "/usr/bin/z3", "/usr/bin/cvc5", "/venv/bin/python"):
    if not (shutil.which(tool) or os.path.exists(tool)):
        print("missing tool:", tool)
        ok = False
p = subprocess.run(["python3-vt", "-c", "import z3, sys; sys.path.insert(0, '/repo'); import sqlglot; print(z3.get_version_string())"], capture_output=True, text=True)
print("python3-vt z3:", p.stdout.strip(), p.stderr.strip()[-200:])
ok = ok and p.returncode == 0
p = subprocess.run(["/venv/bin/python", "-c", "import sqlglot; print(sqlglot.__file__)"], capture_output=True, text=True, cwd="/repo")
print("/venv sqlglot:", p.stdout.strip(), p.stderr.strip()[-200:])
ok = ok and p.returncode == 0
for d in ("evidence", "replays"):
    os.makedirs(os.path.join(HERE, d), exist_ok=True)
sys.exit(0 if ok else 1)
